/-
  Lemmas/Unified — the unified diff writer (`writeHunkUnified`) read back by the unified parser (`unifiedLoop`):
  decimal numbers, the range line, `splitLines` of emitted text, the hunk loop (helper lemmas for C13).
-/
import PatchModel.Spec.Diff
import PatchModel.Lemmas.Cpp
import PatchModel.Lemmas.Render
import PatchModel.Lemmas.Apply
namespace PatchModel.Unified
open PatchModel

/-! ### literals -/

theorem str_atat_minus : str "@@ -" = [64, 64, 32, 45] := by
  unfold str String.toUTF8; rw [Cpp.byteArray_toList_eq_data]; rfl
theorem str_sp_plus : str " +" = [32, 43] := by
  unfold str String.toUTF8; rw [Cpp.byteArray_toList_eq_data]; rfl
theorem str_sp_atat : str " @@" = [32, 64, 64] := by
  unfold str String.toUTF8; rw [Cpp.byteArray_toList_eq_data]; rfl
theorem str_sp_atat_nl : str " @@\n" = [32, 64, 64, 10] := by
  unfold str String.toUTF8; rw [Cpp.byteArray_toList_eq_data]; rfl

/-- the marker line without its terminator -/
def markerText : Bytes :=
  [92, 32, 78, 111, 32, 110, 101, 119, 108, 105, 110, 101, 32, 97, 116, 32, 101, 110, 100, 32, 111, 102, 32, 102, 105, 108, 101]

theorem noNewlineMarker_eq : noNewlineMarker = markerText ++ [NL] := by
  unfold noNewlineMarker str String.toUTF8; rw [Cpp.byteArray_toList_eq_data]; rfl

/-! ### decimal numbers -/

theorem digitChar_isDigit (d : Nat) (h : d < 10) : isDigit (digitChar d) = true := by
  have : d = 0 ∨ d = 1 ∨ d = 2 ∨ d = 3 ∨ d = 4 ∨ d = 5 ∨ d = 6 ∨ d = 7 ∨ d = 8 ∨ d = 9 := by omega
  rcases this with h|h|h|h|h|h|h|h|h|h <;> subst h <;> decide

theorem digitChar_val (d : Nat) (h : d < 10) : (digitChar d).toNat - 48 = d := by
  have : d = 0 ∨ d = 1 ∨ d = 2 ∨ d = 3 ∨ d = 4 ∨ d = 5 ∨ d = 6 ∨ d = 7 ∨ d = 8 ∨ d = 9 := by omega
  rcases this with h|h|h|h|h|h|h|h|h|h <;> subst h <;> decide

theorem natDigitsAux_eq (n : Nat) (acc : Bytes) : natDigitsAux n acc = natDigitsAux n [] ++ acc := by
  induction n using Nat.strongRecOn generalizing acc with
  | _ n ih =>
    rw [natDigitsAux.eq_def]
    conv => rhs; rw [natDigitsAux.eq_def]
    by_cases h : n < 10
    · simp [h]
    · simp only [h, dite_false]
      rw [ih (n / 10) (by omega), ih (n / 10) (by omega) [digitChar (n % 10)]]
      simp

theorem natDigits_small (n : Nat) (h : n < 10) : natDigits n = [digitChar n] := by
  unfold natDigits; rw [natDigitsAux.eq_def]; simp [h]

theorem natDigits_big (n : Nat) (h : ¬ n < 10) : natDigits n = natDigits (n / 10) ++ [digitChar (n % 10)] := by
  unfold natDigits; rw [natDigitsAux.eq_def]; simp only [h, dite_false]
  rw [natDigitsAux_eq]

theorem natDigits_all_digit (n : Nat) : ∀ c ∈ natDigits n, isDigit c = true := by
  induction n using Nat.strongRecOn with
  | _ n ih =>
    by_cases h : n < 10
    · rw [natDigits_small n h]; intro c hc; simp at hc; subst hc; exact digitChar_isDigit n h
    · rw [natDigits_big n h]; intro c hc
      rcases List.mem_append.1 hc with hc | hc
      · exact ih (n / 10) (by omega) c hc
      · simp at hc; subst hc; exact digitChar_isDigit _ (by omega)

theorem natDigits_ne_nil (n : Nat) : natDigits n ≠ [] := by
  by_cases h : n < 10
  · rw [natDigits_small n h]; simp
  · rw [natDigits_big n h]; simp

theorem stringToLineNumber_append (ds es : Bytes) (acc v : Int)
    (h : stringToLineNumber ds acc = (true, v)) :
    stringToLineNumber (ds ++ es) acc = stringToLineNumber es v := by
  induction ds generalizing acc with
  | nil => simp [stringToLineNumber] at h; subst h; rfl
  | cons c ds ih =>
    rw [List.cons_append, stringToLineNumber]
    rw [stringToLineNumber] at h
    by_cases h1 : i64Max / 10 < acc
    · simp [h1] at h
    · simp only [h1, if_false] at h ⊢
      by_cases h2 : i64Max - ((c.toNat - 48 : Nat) : Int) < acc * 10
      · simp [h2] at h
      · simp only [h2, if_false] at h ⊢
        exact ih _ h

theorem stringToLineNumber_natDigits (n : Nat) (hn : (n : Int) ≤ i64Max) :
    stringToLineNumber (natDigits n) 0 = (true, (n : Int)) := by
  induction n using Nat.strongRecOn with
  | _ n ih =>
    by_cases h : n < 10
    · rw [natDigits_small n h]
      simp only [stringToLineNumber, digitChar_val n h]
      have e : i64Max = 9223372036854775807 := rfl
      rw [if_neg (by omega), if_neg (by omega)]; simp
    · rw [natDigits_big n h]
      have hn' : ((n / 10 : Nat) : Int) ≤ i64Max := by simp only [i64Max] at hn ⊢; omega
      rw [stringToLineNumber_append _ _ _ _ (ih (n / 10) (by omega) hn')]
      simp only [stringToLineNumber, digitChar_val (n % 10) (by omega)]
      have e : i64Max = 9223372036854775807 := rfl
      rw [if_neg (by omega), if_neg (by omega)]
      congr 1; omega

theorem takeWhile_append_of_all {α} (p : α → Bool) (ds rest : List α) (hd : ∀ c ∈ ds, p c = true)
    (hr : ∀ c, rest.head? = some c → p c = false) : (ds ++ rest).takeWhile p = ds := by
  induction ds with
  | nil =>
    cases rest with
    | nil => rfl
    | cons c r => simp [hr c rfl]
  | cons d ds ih =>
    simp only [List.cons_append, List.takeWhile, hd d (by simp)]
    rw [ih (fun c hc => hd c (by simp [hc]))]

theorem dropWhile_append_of_all {α} (p : α → Bool) (ds rest : List α) (hd : ∀ c ∈ ds, p c = true)
    (hr : ∀ c, rest.head? = some c → p c = false) : (ds ++ rest).dropWhile p = rest := by
  induction ds with
  | nil =>
    cases rest with
    | nil => rfl
    | cons c r => simp [hr c rfl]
  | cons d ds ih =>
    simp only [List.cons_append, List.dropWhile, hd d (by simp)]
    rw [ih (fun c hc => hd c (by simp [hc]))]

theorem intDigits_natCast (n : Nat) : intDigits (n : Int) = natDigits n := by
  unfold intDigits; rw [if_neg (by omega)]; simp

theorem number_roundtrip (n : Nat) (hn : (n : Int) ≤ i64Max / 4) (rest : Bytes) (cur : Int)
    (hrest : ∀ c, rest.head? = some c → isDigit c = false) :
    consumeLineNumber (intDigits (n : Int) ++ rest) cur = (true, (n : Int), rest) := by
  rw [intDigits_natCast]
  have hall := natDigits_all_digit n
  have hne := natDigits_ne_nil n
  unfold consumeLineNumber
  rw [takeWhile_append_of_all _ _ _ hall hrest, dropWhile_append_of_all _ _ _ hall hrest]
  have hn1 : (n : Int) ≤ i64Max := by simp only [i64Max] at hn ⊢; omega
  simp only [stringToLineNumber_natDigits n hn1]
  cases hd : natDigits n with
  | nil => exact absurd hd hne
  | cons c ds =>
    have : isDigit c = true := hall c (by simp [hd])
    simp [this, hn]


/-! ### the range line -/



theorem consumeStr_append (s r : Bytes) : consumeStr s (s ++ r) = some r := by
  unfold consumeStr
  have : s.isPrefixOf (s ++ r) = true := by
    rw [List.isPrefixOf_iff_prefix]; exact List.prefix_append s r
  simp [this]

theorem consumeStr_comma_none (r : Bytes) (h : r.head? ≠ some 44) : consumeStr [44] r = none := by
  unfold consumeStr
  cases r with
  | nil => simp [List.isPrefixOf]
  | cons c r =>
    have : c ≠ 44 := by simpa using h
    simp [List.isPrefixOf]
    intro h; exact absurd h.symm this

/-- the `consumeRange` closure of `parseUnifiedRange` -/
def consumeRange (r : Range) (inp : Bytes) : Bool × Range × Bytes :=
    let (ok, v, rest) := consumeLineNumber inp r.start
    let r1 : Range := { r with start := v }
    if !ok then (false, r1, rest)
    else match consumeStr [44] rest with
      | some rest2 =>
        let (ok2, c, rest3) := consumeLineNumber rest2 r1.count
        (ok2, { r1 with count := c }, rest3)
      | none => (true, { r1 with count := 1 }, rest)

theorem parseUnifiedRange_eq (h : Hunk) (line : Bytes) : parseUnifiedRange h line =
  match consumeStr (str "@@ -") line with
  | none => (false, h)
  | some r1 =>
    let (ok, oldR, r2) := consumeRange h.old r1
    let h1 := { h with old := oldR }
    if !ok then (false, h1)
    else match consumeStr (str " +") r2 with
      | none => (false, h1)
      | some r3 =>
        let (ok2, newR, r4) := consumeRange h1.new r3
        let h2 := { h1 with new := newR }
        if !ok2 then (false, h2)
        else match consumeStr (str " @@") r4 with
          | none => (false, h2)
          | some _ => (true, h2) := rfl

theorem consumeRange_roundtrip (r : Range) (s c : Int) (hs : 0 ≤ s) (hc : 0 ≤ c) (hsb : s ≤ i64Max / 4) (hcb : c ≤ i64Max / 4)
    (rest : Bytes) (hd : ∀ x, rest.head? = some x → isDigit x = false) (hcomma : rest.head? ≠ some 44) :
    consumeRange r (intDigits s ++ (if c ≠ 1 then [44] ++ intDigits c else []) ++ rest) = (true, ⟨s, c⟩, rest) := by
  obtain ⟨n, rfl⟩ := Int.eq_ofNat_of_zero_le hs
  obtain ⟨m, rfl⟩ := Int.eq_ofNat_of_zero_le hc
  unfold consumeRange
  by_cases h1 : (m : Int) ≠ 1
  · rw [if_pos h1, List.append_assoc, number_roundtrip n hsb _ _ (by intro x hx; simp at hx; subst hx; decide)]
    simp only [Bool.not_true, Bool.false_eq_true, if_false]
    rw [List.append_assoc, consumeStr_append]
    simp only [number_roundtrip m hcb rest _ hd]
  · rw [if_neg h1, List.append_nil, number_roundtrip n hsb _ _ hd]
    simp only [Bool.not_true, Bool.false_eq_true, if_false]
    rw [consumeStr_comma_none _ hcomma]
    have : (m : Int) = 1 := by omega
    simp [this]

theorem unified_range_roundtrip (h : Hunk) (h0 : Hunk)
    (hos : 0 ≤ h.old.start) (hoc : 0 ≤ h.old.count) (hns : 0 ≤ h.new.start) (hnc : 0 ≤ h.new.count)
    (hob : h.old.start ≤ i64Max / 4) (hocb : h.old.count ≤ i64Max / 4) (hnb : h.new.start ≤ i64Max / 4) (hncb : h.new.count ≤ i64Max / 4) :
    parseUnifiedRange h0
      (str "@@ -" ++ intDigits h.old.start ++ (if h.old.count ≠ 1 then [44] ++ intDigits h.old.count else [])
        ++ str " +" ++ intDigits h.new.start ++ (if h.new.count ≠ 1 then [44] ++ intDigits h.new.count else [])
        ++ str " @@")
    = (true, { h0 with old := h.old, new := h.new }) := by
  rw [parseUnifiedRange_eq]
  have e : ∀ (a b c d e f g : Bytes), a ++ b ++ c ++ d ++ e ++ f ++ g = a ++ ((b ++ c) ++ (d ++ ((e ++ f) ++ g))) := by
    intros; simp
  rw [e, consumeStr_append]
  simp only []
  rw [consumeRange_roundtrip h0.old _ _ hos hoc hob hocb _
    (by rw [str_sp_plus]; intro x hx; simp at hx; subst hx; decide) (by rw [str_sp_plus]; simp)]
  simp only [Bool.not_true, Bool.false_eq_true, if_false]
  rw [consumeStr_append]
  simp only []
  rw [consumeRange_roundtrip _ _ _ hns hnc hnb hncb _
    (by rw [str_sp_atat]; intro x hx; simp at hx; subst hx; decide) (by rw [str_sp_atat]; simp)]
  simp only [Bool.not_true, Bool.false_eq_true, if_false]
  have : consumeStr (str " @@") (str " @@") = some [] := by
    have := consumeStr_append (str " @@") []
    simpa using this
  rw [this]


/-! ### splitLines of emitted text -/





theorem splitLinesGo_line (cur content rest : Bytes) (h : NL ∉ content) :
    splitLinesGo cur (content ++ NL :: rest) = mkLine (cur ++ content) :: splitLinesGo [] rest := by
  induction content generalizing cur with
  | nil => simp [splitLinesGo]
  | cons c cs ih =>
    have hc : (c == NL) = false := by
      simp only [List.mem_cons, not_or] at h
      simpa using fun e => h.1 e.symm
    rw [List.cons_append, splitLinesGo, hc]
    simp only [Bool.false_eq_true, if_false]
    rw [ih _ (fun hm => h (List.mem_cons_of_mem _ hm))]
    simp

theorem mkLine_plain (content : Bytes) (h : content.getLast? ≠ some CR) : mkLine content = ⟨content, .lf⟩ := by
  unfold mkLine; rw [if_neg h]

theorem splitLines_line (content rest : Bytes) (h1 : NL ∉ content) (h2 : content.getLast? ≠ some CR) :
    splitLines (content ++ NL :: rest) = ⟨content, .lf⟩ :: splitLines rest := by
  unfold splitLines
  rw [splitLinesGo_line _ _ _ h1, List.nil_append, mkLine_plain _ h2]






theorem intDigits_no_NL (i : Int) : NL ∉ intDigits i := by
  have hd : ∀ n, NL ∉ natDigits n := by
    intro n hm
    have := natDigits_all_digit n NL hm
    exact absurd this (by decide)
  unfold intDigits
  split
  · intro hm
    rcases List.mem_cons.1 hm with h | h
    · exact absurd h (by decide)
    · exact hd _ h
  · exact hd _

/-- the text of the range line of a hunk (without terminator) -/
def rangeText (h : Hunk) : Bytes :=
  str "@@ -" ++ intDigits h.old.start ++ (if h.old.count ≠ 1 then [44] ++ intDigits h.old.count else [])
    ++ str " +" ++ intDigits h.new.start ++ (if h.new.count ≠ 1 then [44] ++ intDigits h.new.count else [])
    ++ str " @@"

def markerLine : Line := ⟨markerText, .lf⟩

/-- the lines of the body of an emitted hunk -/
def bodyLines : List PatchLine → List Line
  | [] => []
  | pl :: rest => ⟨pl.op :: pl.line.content, .lf⟩ :: ((if pl.line.newline = .none then [markerLine] else []) ++ bodyLines rest)

def hunkLines (h : Hunk) : List Line := ⟨rangeText h, .lf⟩ :: bodyLines h.lines

theorem rangeText_no_NL (h : Hunk) : NL ∉ rangeText h := by
  unfold rangeText
  rw [str_atat_minus, str_sp_plus, str_sp_atat]
  have := intDigits_no_NL
  simp only [List.mem_append, not_or]
  refine ⟨⟨⟨⟨⟨⟨by decide, this _⟩, ?_⟩, by decide⟩, this _⟩, ?_⟩, by decide⟩
  · split
    · simp only [List.mem_append, not_or]; exact ⟨by decide, this _⟩
    · simp
  · split
    · simp only [List.mem_append, not_or]; exact ⟨by decide, this _⟩
    · simp

theorem rangeText_last (h : Hunk) : (rangeText h).getLast? ≠ some CR := by
  unfold rangeText
  rw [str_sp_atat, List.getLast?_append]
  simp
  decide

theorem writeHunkUnified_eq (h : Hunk) :
    writeHunkUnified h = rangeText h ++ NL ::
      (h.lines.flatMap fun pl => [pl.op] ++ pl.line.content ++ [NL]
            ++ (if pl.line.newline = NewLine.none then noNewlineMarker else [])) := by
  unfold writeHunkUnified rangeText
  have : str " @@\n" = str " @@" ++ [NL] := by rw [str_sp_atat_nl, str_sp_atat]; rfl
  rw [this]
  simp only [List.append_assoc, List.singleton_append]

theorem splitLines_body (ls : List PatchLine) (rest : Bytes)
    (hops : ∀ pl ∈ ls, pl.op = SP ∨ pl.op = PLUS ∨ pl.op = MINUS)
    (hplain : ∀ pl ∈ ls, plainLine pl.line = true) :
    splitLines ((ls.flatMap fun pl => [pl.op] ++ pl.line.content ++ [NL]
            ++ (if pl.line.newline = NewLine.none then noNewlineMarker else [])) ++ rest)
      = bodyLines ls ++ splitLines rest := by
  induction ls with
  | nil => simp [bodyLines]
  | cons pl ls ih =>
    have ih' := ih (fun x hx => hops x (List.mem_cons_of_mem _ hx)) (fun x hx => hplain x (List.mem_cons_of_mem _ hx))
    have hop := hops pl List.mem_cons_self
    have hpl := hplain pl List.mem_cons_self
    unfold plainLine at hpl
    simp only [Bool.and_eq_true, Bool.not_eq_true', bne_iff_ne, ne_eq] at hpl
    have h1 : NL ∉ pl.op :: pl.line.content := by
      intro hm
      rcases List.mem_cons.1 hm with h | h
      · rcases hop with e | e | e <;> rw [e] at h <;> exact absurd h (by decide)
      · have := hpl.1; simp at this; exact this h
    have h2 : (pl.op :: pl.line.content).getLast? ≠ some CR := by
      cases hc : pl.line.content with
      | nil =>
        simp only [List.getLast?_singleton, ne_eq, Option.some.injEq]
        rcases hop with e | e | e <;> rw [e] <;> decide
      | cons c cs =>
        rw [List.getLast?_cons_cons, ← hc]; exact hpl.2
    rw [List.flatMap_cons, bodyLines]
    have e : ∀ (x y : Bytes), ([pl.op] ++ pl.line.content ++ [NL] ++ x) ++ y = (pl.op :: pl.line.content) ++ NL :: (x ++ y) := by
      intro x y; simp
    rw [List.append_assoc, e, splitLines_line _ _ h1 h2, List.cons_append]
    congr 1
    revert ih'
    generalize (List.flatMap _ ls ++ rest) = T
    intro ih'
    split
    · rw [noNewlineMarker_eq, List.append_assoc, List.append_assoc, List.singleton_append,
        splitLines_line _ _ (by decide) (by decide), ih']
      rfl
    · simpa using ih'

theorem splitLines_hunk (h : Hunk) (rest : Bytes)
    (hops : ∀ pl ∈ h.lines, pl.op = SP ∨ pl.op = PLUS ∨ pl.op = MINUS)
    (hplain : ∀ pl ∈ h.lines, plainLine pl.line = true) :
    splitLines (writeHunkUnified h ++ rest) = hunkLines h ++ splitLines rest := by
  rw [writeHunkUnified_eq, List.append_assoc, List.cons_append, splitLines_line _ _ (rangeText_no_NL h) (rangeText_last h),
    splitLines_body _ _ hops hplain]
  rfl

theorem splitLines_hunks (hs : List Hunk)
    (hops : ∀ h ∈ hs, ∀ pl ∈ h.lines, pl.op = SP ∨ pl.op = PLUS ∨ pl.op = MINUS)
    (hplain : ∀ h ∈ hs, ∀ pl ∈ h.lines, plainLine pl.line = true) :
    splitLines (hs.flatMap writeHunkUnified) = hs.flatMap hunkLines := by
  induction hs with
  | nil => rfl
  | cons h hs ih =>
    rw [List.flatMap_cons, List.flatMap_cons, splitLines_hunk h _ (hops h List.mem_cons_self) (hplain h List.mem_cons_self),
      ih (fun x hx => hops x (List.mem_cons_of_mem _ hx)) (fun x hx => hplain x (List.mem_cons_of_mem _ hx))]


/-! ### the range parser does not look at the hunk it fills in -/

theorem consumeLineNumber_indep (r : Bytes) (cur cur' : Int) :
    (consumeLineNumber r cur).1 = (consumeLineNumber r cur').1 ∧
    (consumeLineNumber r cur).2.2 = (consumeLineNumber r cur').2.2 := by
  unfold consumeLineNumber
  cases r with
  | nil => exact ⟨rfl, rfl⟩
  | cons c r =>
    simp only
    split
    · exact ⟨rfl, rfl⟩
    · exact ⟨rfl, rfl⟩

theorem consumeRange_indep (r r' : Range) (inp : Bytes) :
    (consumeRange r inp).1 = (consumeRange r' inp).1 ∧ (consumeRange r inp).2.2 = (consumeRange r' inp).2.2 := by
  unfold consumeRange
  obtain ⟨h1, h2⟩ := consumeLineNumber_indep inp r.start r'.start
  generalize consumeLineNumber inp r.start = a at h1 h2
  generalize consumeLineNumber inp r'.start = a' at h1 h2
  rcases a with ⟨ok, v, rest⟩
  rcases a' with ⟨ok', v', rest'⟩
  simp only at h1 h2
  subst h1 h2
  simp only
  cases ok
  · exact ⟨rfl, rfl⟩
  · simp only [Bool.not_true, Bool.false_eq_true, if_false]
    cases consumeStr [44] rest with
    | none => exact ⟨rfl, rfl⟩
    | some rest2 =>
      simp only
      exact consumeLineNumber_indep rest2 _ _

theorem parseUnifiedRange_fst_indep (h h' : Hunk) (line : Bytes) :
    (parseUnifiedRange h line).1 = (parseUnifiedRange h' line).1 := by
  rw [parseUnifiedRange_eq, parseUnifiedRange_eq]
  cases consumeStr (str "@@ -") line with
  | none => rfl
  | some r1 =>
    simp only
    obtain ⟨h1, h2⟩ := consumeRange_indep h.old h'.old r1
    generalize consumeRange h.old r1 = a at h1 h2
    generalize consumeRange h'.old r1 = a' at h1 h2
    rcases a with ⟨ok, v, rest⟩
    rcases a' with ⟨ok', v', rest'⟩
    simp only at h1 h2
    subst h1 h2
    cases ok
    · rfl
    · simp only [Bool.not_true, Bool.false_eq_true, if_false]
      cases consumeStr (str " +") rest with
      | none => rfl
      | some r3 =>
        simp only
        obtain ⟨h1, h2⟩ := consumeRange_indep h.new h'.new r3
        generalize consumeRange h.new r3 = a at h1 h2
        generalize consumeRange h'.new r3 = a' at h1 h2
        rcases a with ⟨ok, v, rest⟩
        rcases a' with ⟨ok', v', rest'⟩
        simp only at h1 h2
        subst h1 h2
        cases ok
        · rfl
        · simp only [Bool.not_true, Bool.false_eq_true, if_false]
          cases consumeStr (str " @@") rest <;> rfl


/-! ### the hunk loop of the unified parser over emitted text -/

/-- what `unifiedLoop` does after the last line of a hunk -/
def afterHunk (fuel : Nat) (st4 : UState) : Except Exn (Bool × UState) :=
  let pos := st4.par.s.rest
  match st4.par.getLine with
  | (none, par5) => .ok (true, { st4 with par := par5 })
  | (some l2, par5) =>
    let (ok, h') := parseUnifiedRange st4.hunk l2.content
    if !ok then
      .ok (true, { st4 with hunk := h', par := { s := par5.s.seek pos, lineNo := par5.lineNo - 1 } })
    else unifiedLoop fuel { st4 with par := par5, hunk := h', content := true, oldExp := h'.old.count, newExp := h'.new.count }

/-- what may follow an emitted hunk: not a `\` line -/
def AfterOK (after : List Line) : Prop := ∀ l, after.head? = some l → l.content.head? ≠ some BACKSLASH

theorem peek_after (after : List Line) (h : AfterOK after) (e b : Bool) : PStream.peek ⟨after, e, b⟩ ≠ BACKSLASH := by
  cases after with
  | nil => simp only [PStream.peek]; decide
  | cons l r =>
    have := h l rfl
    rcases l with ⟨content, nl⟩
    cases content with
    | nil => cases nl <;> simp only [PStream.peek] <;> decide
    | cons c cs => simp only [PStream.peek]; simpa using this

theorem peek_body (rest : List PatchLine) (after : List Line) (h : AfterOK after)
    (hops : ∀ pl ∈ rest, pl.op = SP ∨ pl.op = PLUS ∨ pl.op = MINUS) (e b : Bool) :
    PStream.peek ⟨bodyLines rest ++ after, e, b⟩ ≠ BACKSLASH := by
  cases rest with
  | nil => exact peek_after after h e b
  | cons pl r =>
    unfold PStream.peek
    simp only [bodyLines, List.cons_append]
    rcases hops pl List.mem_cons_self with h | h | h <;> rw [h] <;> decide

theorem markLastNone_snoc (L : List PatchLine) (op : UInt8) (c : Bytes) (nl : NewLine) :
    markLastNone (L ++ [⟨op, ⟨c, nl⟩⟩]) = L ++ [⟨op, ⟨c, .none⟩⟩] := by
  unfold markLastNone; simp

theorem sides_ne_nil (rest : List PatchLine) (hne : rest ≠ [])
    (hops : ∀ pl ∈ rest, pl.op = SP ∨ pl.op = PLUS ∨ pl.op = MINUS) :
    ¬ (((oldOf rest).length : Int) = 0 ∧ ((newOf rest).length : Int) = 0) := by
  cases rest with
  | nil => exact absurd rfl hne
  | cons pl r =>
    rintro ⟨h1, h2⟩
    rcases hops pl List.mem_cons_self with h | h | h
    · rw [Splice.oldOf_cons_not_plus (by rw [h]; decide), List.length_cons] at h1; omega
    · rw [Splice.newOf_cons_not_minus (by rw [h]; decide), List.length_cons] at h2; omega
    · rw [Splice.oldOf_cons_not_plus (by rw [h]; decide), List.length_cons] at h1; omega

/-- the new-side bookkeeping of one hunk line -/
def stepNew (st1 : UState) (what : UInt8) : UState :=
  if what != MINUS then
    let ne := st1.newExp - 1
    if ne = 0 ∧ st1.par.s.peek = BACKSLASH then
      { st1 with newExp := ne, hunk := { st1.hunk with lines := markLastNone st1.hunk.lines }, par := (st1.par.getLine).2 }
    else { st1 with newExp := ne }
  else st1

/-- the old-side bookkeeping of one hunk line -/
def stepOld (st2 : UState) (what : UInt8) : UState :=
  if what != PLUS then
    let oe := st2.oldExp - 1
    if oe = 0 ∧ st2.par.s.peek = BACKSLASH then
      { st2 with oldExp := oe, hunk := { st2.hunk with lines := markLastNone st2.hunk.lines }, par := (st2.par.getLine).2 }
    else { st2 with oldExp := oe }
  else st2

theorem unifiedLoop_content (fuel : Nat) (st : UState) (l : Line) (par' : Parser) (what : UInt8) (body : Bytes)
    (hg : st.par.getLine = (some l, par')) (hc : st.content = true) (hl : l.content = what :: body)
    (hw : what = SP ∨ what = PLUS ∨ what = MINUS) :
    unifiedLoop (fuel + 1) st =
      let st3 := stepOld (stepNew { st with par := par', hunk := { st.hunk with lines := st.hunk.lines ++ [⟨what, ⟨body, l.newline⟩⟩] } } what) what
      if st3.oldExp = 0 ∧ st3.newExp = 0 then
        afterHunk fuel { st3 with hunks := st3.hunks ++ [st3.hunk], hunk := { st3.hunk with lines := [] } }
      else unifiedLoop fuel st3 := by
  rcases l with ⟨lc, lnl⟩
  simp only at hl
  subst hl
  rcases st with ⟨par, hunks, hunk, content, oe, ne⟩
  simp only at hc hg
  subst hc
  rcases hw with rfl | rfl | rfl
  · rw [unifiedLoop]
    simp only []
    rw [hg]
    rfl
  · rw [unifiedLoop]
    simp only []
    rw [hg]
    rfl
  · rw [unifiedLoop]
    simp only []
    rw [hg]
    rfl

theorem stepNew_minus (st1 : UState) : stepNew st1 MINUS = st1 := rfl
theorem stepOld_plus (st1 : UState) : stepOld st1 PLUS = st1 := rfl

theorem stepNew_nomark (st1 : UState) (what : UInt8) (hw : what = SP ∨ what = PLUS)
    (hpk : st1.par.s.peek ≠ BACKSLASH) : stepNew st1 what = { st1 with newExp := st1.newExp - 1 } := by
  unfold stepNew
  have : (what != MINUS) = true := by rcases hw with rfl | rfl <;> decide
  simp only [this, if_true]
  rw [if_neg (fun h => hpk h.2)]

theorem stepOld_nomark (st1 : UState) (what : UInt8) (hw : what = SP ∨ what = MINUS)
    (hpk : st1.par.s.peek ≠ BACKSLASH) : stepOld st1 what = { st1 with oldExp := st1.oldExp - 1 } := by
  unfold stepOld
  have : (what != PLUS) = true := by rcases hw with rfl | rfl <;> decide
  simp only [this, if_true]
  rw [if_neg (fun h => hpk h.2)]

theorem stepNew_mark (st1 : UState) (what : UInt8) (hw : what = SP ∨ what = PLUS)
    (h0 : st1.newExp - 1 = 0) (hpk : st1.par.s.peek = BACKSLASH) :
    stepNew st1 what = { st1 with newExp := st1.newExp - 1, hunk := { st1.hunk with lines := markLastNone st1.hunk.lines },
                                   par := (st1.par.getLine).2 } := by
  unfold stepNew
  have : (what != MINUS) = true := by rcases hw with rfl | rfl <;> decide
  simp only [this, if_true]
  rw [if_pos ⟨h0, hpk⟩]

theorem stepOld_mark (st1 : UState) (what : UInt8) (hw : what = SP ∨ what = MINUS)
    (h0 : st1.oldExp - 1 = 0) (hpk : st1.par.s.peek = BACKSLASH) :
    stepOld st1 what = { st1 with oldExp := st1.oldExp - 1, hunk := { st1.hunk with lines := markLastNone st1.hunk.lines },
                                   par := (st1.par.getLine).2 } := by
  unfold stepOld
  have : (what != PLUS) = true := by rcases hw with rfl | rfl <;> decide
  simp only [this, if_true]
  rw [if_pos ⟨h0, hpk⟩]

theorem getLine_lf (content : Bytes) (r : List Line) (n : Nat) :
    Parser.getLine ⟨⟨⟨content, .lf⟩ :: r, false, false⟩, n⟩ = (some ⟨content, .lf⟩, ⟨⟨r, false, false⟩, n + 1⟩) := rfl

theorem peek_marker (r : List Line) (e b : Bool) : PStream.peek ⟨markerLine :: r, e, b⟩ = BACKSLASH := rfl

/-- the state after the two bookkeeping steps of one emitted hunk line -/
theorem steps_spec (pl : PatchLine) (rest' : List PatchLine) (n : Nat) (hunks : List Hunk) (o nw : Range)
    (L : List PatchLine) (after : List Line)
    (hop : pl.op = SP ∨ pl.op = PLUS ∨ pl.op = MINUS)
    (hops : ∀ pl ∈ rest', pl.op = SP ∨ pl.op = PLUS ∨ pl.op = MINUS)
    (hnl : noNlOnlyLast (pl :: rest') = true) (hafter : AfterOK after) :
    ∃ n', stepOld (stepNew ⟨⟨⟨(if pl.line.newline = .none then [markerLine] else []) ++ bodyLines rest' ++ after, false, false⟩, n⟩,
              hunks, ⟨o, nw, L ++ [⟨pl.op, ⟨pl.line.content, .lf⟩⟩]⟩, true,
              (oldOf (pl :: rest')).length, (newOf (pl :: rest')).length⟩ pl.op) pl.op
      = ⟨⟨⟨bodyLines rest' ++ after, false, false⟩, n'⟩, hunks, ⟨o, nw, L ++ [pl.normNl]⟩, true,
          (oldOf rest').length, (newOf rest').length⟩ := by
  rcases pl with ⟨op, ⟨c, nl⟩⟩
  have hpk := peek_body rest' after hafter hops false false
  simp only at hop
  simp only [PatchLine.normNl, Line.normNl]
  by_cases hn : nl = .none
  · subst hn
    simp only [if_true, List.cons_append]
    unfold noNlOnlyLast at hnl
    simp only [if_true, Bool.and_eq_true] at hnl
    rcases hop with rfl | rfl | rfl
    · have hr : rest' = [] := by simpa using hnl.1
      subst hr
      refine ⟨n + 1, ?_⟩
      rw [Splice.oldOf_cons_not_plus rfl, Splice.newOf_cons_not_minus rfl]
      simp only [Splice.oldOf_nil, Splice.newOf_nil, List.length_cons, List.length_nil, bodyLines, List.nil_append] at hpk ⊢
      rw [stepNew_mark _ _ (Or.inl rfl) (by simp) (peek_marker _ _ _)]
      simp only [markerLine, getLine_lf, markLastNone_snoc]
      rw [stepOld_nomark _ _ (Or.inl rfl) hpk]
      simp
    · have hr : newOf rest' = [] := by simpa using hnl.1
      refine ⟨n + 1, ?_⟩
      rw [Splice.oldOf_cons_plus rfl, Splice.newOf_cons_not_minus rfl, hr]
      simp only [List.length_cons, List.length_nil]
      rw [stepNew_mark _ _ (Or.inr rfl) (by simp) (peek_marker _ _ _), stepOld_plus]
      simp only [markerLine, getLine_lf, markLastNone_snoc]
      simp
    · have hr : oldOf rest' = [] := by simpa using hnl.1
      refine ⟨n + 1, ?_⟩
      rw [Splice.oldOf_cons_not_plus rfl, Splice.newOf_cons_minus rfl, hr]
      simp only [List.length_cons, List.length_nil]
      rw [stepNew_minus, stepOld_mark _ _ (Or.inr rfl) (by simp) (peek_marker _ _ _)]
      simp only [markerLine, getLine_lf, markLastNone_snoc]
      simp
  · simp only [hn, if_false, List.nil_append]
    refine ⟨n, ?_⟩
    rcases hop with rfl | rfl | rfl
    · rw [Splice.oldOf_cons_not_plus rfl, Splice.newOf_cons_not_minus rfl]
      rw [stepNew_nomark _ _ (Or.inl rfl) hpk, stepOld_nomark _ _ (Or.inl rfl) hpk]
      simp
    · rw [Splice.oldOf_cons_plus rfl, Splice.newOf_cons_not_minus rfl]
      rw [stepNew_nomark _ _ (Or.inr rfl) hpk, stepOld_plus]
      simp
    · rw [Splice.oldOf_cons_not_plus rfl, Splice.newOf_cons_minus rfl]
      rw [stepNew_minus, stepOld_nomark _ _ (Or.inr rfl) hpk]
      simp

theorem bodyLines_cons_append (pl : PatchLine) (rest' : List PatchLine) (after : List Line) :
    bodyLines (pl :: rest') ++ after = ⟨pl.op :: pl.line.content, .lf⟩ ::
      ((if pl.line.newline = .none then [markerLine] else []) ++ bodyLines rest' ++ after) := by
  simp [bodyLines]

/-- the loop over the body of one emitted hunk -/
theorem unifiedLoop_body : ∀ (rest : List PatchLine) (fuel n : Nat) (hunks : List Hunk) (o nw : Range)
    (L : List PatchLine) (after : List Line), rest ≠ [] →
    (∀ pl ∈ rest, pl.op = SP ∨ pl.op = PLUS ∨ pl.op = MINUS) → noNlOnlyLast rest = true → AfterOK after →
    (bodyLines rest ++ after).length + 1 ≤ fuel →
    ∃ fuel' n', after.length + 1 ≤ fuel' ∧
      unifiedLoop fuel ⟨⟨⟨bodyLines rest ++ after, false, false⟩, n⟩, hunks, ⟨o, nw, L⟩, true,
          (oldOf rest).length, (newOf rest).length⟩
        = afterHunk fuel' ⟨⟨⟨after, false, false⟩, n'⟩, hunks ++ [⟨o, nw, L ++ rest.map PatchLine.normNl⟩], ⟨o, nw, []⟩,
            true, 0, 0⟩ := by
  intro rest
  induction rest with
  | nil => intro _ _ _ _ _ _ _ h; exact absurd rfl h
  | cons pl rest' ih =>
    intro fuel n hunks o nw L after _ hops hnl hafter hfuel
    have hop := hops pl List.mem_cons_self
    have hops' : ∀ x ∈ rest', x.op = SP ∨ x.op = PLUS ∨ x.op = MINUS := fun x hx => hops x (List.mem_cons_of_mem _ hx)
    rw [bodyLines_cons_append] at hfuel ⊢
    obtain ⟨f, rfl⟩ : ∃ f, fuel = f + 1 := ⟨fuel - 1, by simp at hfuel; omega⟩
    rw [unifiedLoop_content f _ ⟨pl.op :: pl.line.content, .lf⟩ _ pl.op pl.line.content (getLine_lf _ _ _) rfl rfl hop]
    obtain ⟨n', hn'⟩ := steps_spec pl rest' (n + 1) hunks o nw L after hop hops' hnl hafter
    dsimp only
    rw [hn']
    dsimp only
    by_cases hr : rest' = []
    · subst hr
      refine ⟨f, n', ?_, ?_⟩
      · simp at hfuel ⊢; omega
      · simp [oldOf, newOf, bodyLines]
    · rw [if_neg (sides_ne_nil rest' hr hops')]
      have hnl' : noNlOnlyLast rest' = true := by
        unfold noNlOnlyLast at hnl; simp only [Bool.and_eq_true] at hnl; exact hnl.2
      obtain ⟨fuel', n'', h1, h2⟩ := ih f n' hunks o nw (L ++ [pl.normNl]) after hr hops' hnl' hafter
        (by simp at hfuel ⊢; omega)
      refine ⟨fuel', n'', h1, ?_⟩
      rw [h2]; simp

/-! ### writable hunks -/

theorem writable_spec (h : Hunk) (hw : h.writable = true) :
    (∀ pl ∈ h.lines, pl.op = SP ∨ pl.op = PLUS ∨ pl.op = MINUS) ∧
    h.old.count = ((oldOf h.lines).length : Int) ∧ h.new.count = ((newOf h.lines).length : Int) ∧
    h.lines ≠ [] ∧ (∀ pl ∈ h.lines, plainLine pl.line = true) ∧ noNlOnlyLast h.lines = true ∧
    0 ≤ h.old.start ∧ 0 ≤ h.new.start ∧ h.old.start + h.old.count ≤ i64Max / 4 ∧ h.new.start + h.new.count ≤ i64Max / 4 := by
  unfold Hunk.writable Hunk.wfB at hw
  simp only [Bool.and_eq_true, List.all_eq_true, Bool.or_eq_true, beq_iff_eq, decide_eq_true_eq,
    Bool.not_eq_true', List.isEmpty_eq_false_iff] at hw
  obtain ⟨⟨⟨⟨⟨⟨⟨⟨⟨h1, h2⟩, h3⟩, h4⟩, h5⟩, h6⟩, h7⟩, h8⟩, h9⟩, h10⟩ := hw
  refine ⟨?_, h2, h3, h4, h5, h6, h7, h8, h9, h10⟩
  intro pl hpl
  rcases h1 pl hpl with (h | h) | h
  · exact Or.inl h
  · exact Or.inr (Or.inl h)
  · exact Or.inr (Or.inr h)

theorem parseUnifiedRange_rangeText (h0 h : Hunk) (hw : h.writable = true) :
    parseUnifiedRange h0 (rangeText h) = (true, { h0 with old := h.old, new := h.new }) := by
  obtain ⟨_, h2, h3, _, _, _, h7, h8, h9, h10⟩ := writable_spec h hw
  exact unified_range_roundtrip h h0 h7 (by omega) h8 (by omega) (by omega) (by omega) (by omega) (by omega)


theorem unifiedLoop_range (fuel : Nat) (st : UState) (l : Line) (par' : Parser) (h' : Hunk)
    (hg : st.par.getLine = (some l, par')) (hc : st.content = false)
    (hp : parseUnifiedRange st.hunk l.content = (true, h')) :
    unifiedLoop (fuel + 1) st =
      unifiedLoop fuel { st with par := par', hunk := h', content := true, oldExp := h'.old.count, newExp := h'.new.count } := by
  rcases st with ⟨par, hunks, hunk, content, oe, ne⟩
  simp only at hc hg hp
  subst hc
  rw [unifiedLoop]
  simp only []
  rw [hg]
  simp only [Bool.not_false, if_true, hp]

theorem afterOK_tail (tail : List Line) (ht : tailOkUnified tail = true) : AfterOK tail := by
  intro l hl
  cases tail with
  | nil => cases hl
  | cons a r =>
    simp only [List.head?_cons, Option.some.injEq] at hl
    subst hl
    unfold tailOkUnified at ht
    simp only [Bool.and_eq_true, bne_iff_ne, ne_eq] at ht
    exact ht.2

theorem afterOK_hunkLines (h : Hunk) (r : List Line) : AfterOK (hunkLines h ++ r) := by
  intro l hl
  simp only [hunkLines, List.cons_append, List.head?_cons, Option.some.injEq] at hl
  subst hl
  simp only [rangeText, str_atat_minus, List.cons_append, List.head?_cons]
  decide

theorem afterHunk_tail (fuel n : Nat) (hunks : List Hunk) (hk : Hunk) (tail : List Line) (ht : tailOkUnified tail = true) :
    ∃ st', afterHunk fuel ⟨⟨⟨tail, false, false⟩, n⟩, hunks, hk, true, 0, 0⟩ = .ok (true, st') ∧
      st'.hunks = hunks ∧ st'.par.s.rest = tail := by
  unfold afterHunk
  cases tail with
  | nil => exact ⟨_, rfl, rfl, rfl⟩
  | cons l r =>
    have hp : (parseUnifiedRange hk l.content).1 = false := by
      rw [parseUnifiedRange_fst_indep hk defaultHunk]
      unfold tailOkUnified at ht
      simp only [Bool.and_eq_true, Bool.not_eq_true'] at ht
      exact ht.1
    have hg : ∃ par5, Parser.getLine ⟨⟨l :: r, false, false⟩, n⟩ = (some l, par5) := by
      by_cases hn : l.newline = .none
      · exact ⟨_, by simp [Parser.getLine, PStream.getLine, hn]; rfl⟩
      · exact ⟨_, by simp [Parser.getLine, PStream.getLine, hn]; rfl⟩
    obtain ⟨par5, hg⟩ := hg
    simp only [hg]
    generalize parseUnifiedRange hk l.content = res at hp
    rcases res with ⟨ok, h'⟩
    simp only at hp
    subst hp
    exact ⟨_, rfl, rfl, rfl⟩

theorem normNl_eq (h : Hunk) : (⟨h.old, h.new, [] ++ h.lines.map PatchLine.normNl⟩ : Hunk) = h.normNl := rfl

/-- the loop over a list of emitted hunks, entered after the first range line -/
theorem unifiedLoop_hunks : ∀ (hs : List Hunk) (h : Hunk) (fuel n : Nat) (hunks : List Hunk) (tail : List Line),
    (∀ x ∈ h :: hs, x.writable = true) → tailOkUnified tail = true →
    (bodyLines h.lines ++ (hs.flatMap hunkLines ++ tail)).length + 1 ≤ fuel →
    ∃ st', unifiedLoop fuel ⟨⟨⟨bodyLines h.lines ++ (hs.flatMap hunkLines ++ tail), false, false⟩, n⟩, hunks,
          ⟨h.old, h.new, []⟩, true, h.old.count, h.new.count⟩ = .ok (true, st') ∧
      st'.hunks = hunks ++ (h :: hs).map Hunk.normNl ∧ st'.par.s.rest = tail := by
  intro hs
  induction hs with
  | nil =>
    intro h fuel n hunks tail hw ht hfuel
    obtain ⟨hops, hoc, hnc, hne, _, hnl, _⟩ := writable_spec h (hw h List.mem_cons_self)
    simp only [List.flatMap_nil, List.nil_append] at hfuel ⊢
    obtain ⟨fuel', n', _, h2⟩ := unifiedLoop_body h.lines fuel n hunks h.old h.new [] tail hne hops hnl
      (afterOK_tail tail ht) hfuel
    rw [hoc, hnc, h2, normNl_eq]
    obtain ⟨st', e1, e2, e3⟩ := afterHunk_tail fuel' n' (hunks ++ [h.normNl]) ⟨h.old, h.new, []⟩ tail ht
    exact ⟨st', e1, by rw [e2]; rfl, e3⟩
  | cons h2 hs ih =>
    intro h fuel n hunks tail hw ht hfuel
    obtain ⟨hops, hoc, hnc, hne, _, hnl, _⟩ := writable_spec h (hw h List.mem_cons_self)
    have hw2 : h2.writable = true := hw h2 (by simp)
    rw [List.flatMap_cons, List.append_assoc] at hfuel ⊢
    obtain ⟨fuel', n', h1, h2'⟩ := unifiedLoop_body h.lines fuel n hunks h.old h.new []
      (hunkLines h2 ++ (hs.flatMap hunkLines ++ tail)) hne hops hnl (afterOK_hunkLines _ _) hfuel
    rw [hoc, hnc, h2', normNl_eq]
    unfold afterHunk
    simp only [hunkLines, List.cons_append, getLine_lf, parseUnifiedRange_rangeText _ h2 hw2, Bool.not_true,
      Bool.false_eq_true, if_false]
    obtain ⟨st', e1, e2, e3⟩ := ih h2 fuel' (n' + 1) (hunks ++ [h.normNl]) tail
      (fun x hx => hw x (List.mem_cons_of_mem _ hx)) ht
      (by simp only [hunkLines, List.cons_append, List.length_cons] at h1; omega)
    refine ⟨st', e1, ?_, e3⟩
    rw [e2]; simp

theorem unified_roundtrip (hs : List Hunk) (hne : hs ≠ []) (hw : ∀ h ∈ hs, h.writable = true)
    (tail : List Line) (ht : tailOkUnified tail = true) (lineNo : Nat) :
    ∃ par', parseUnifiedBody { s := { rest := splitLines (hs.flatMap writeHunkUnified) ++ tail }, lineNo := lineNo }
        = .ok (hs.map Hunk.normNl, par') ∧ par'.s.rest = tail := by
  rw [splitLines_hunks hs (fun h hh => (writable_spec h (hw h hh)).1) (fun h hh => (writable_spec h (hw h hh)).2.2.2.2.1)]
  cases hs with
  | nil => exact absurd rfl hne
  | cons h hs =>
    unfold parseUnifiedBody
    simp only [List.flatMap_cons, hunkLines, List.cons_append, List.length_cons]
    rw [unifiedLoop_range _ _ ⟨rangeText h, .lf⟩ _ _ (getLine_lf _ _ _) rfl
      (parseUnifiedRange_rangeText defaultHunk h (hw h List.mem_cons_self))]
    obtain ⟨st', e1, e2, e3⟩ := unifiedLoop_hunks hs h ((bodyLines h.lines ++ (List.flatMap hunkLines hs ++ tail)).length + 2)
      (lineNo + 1) [] tail hw ht (by omega)
    simp only [defaultHunk, List.append_assoc]
    rw [e1]
    exact ⟨st'.par, by simp [e2], e3⟩


/-! ### the context writer on writable hunks -/

theorem writable_WF (h : Hunk) (hw : h.writable = true) : h.WF := by
  obtain ⟨h1, h2, h3, _⟩ := writable_spec h hw
  exact ⟨h1, h2, h3⟩

theorem ctxRejectBody_ok (hs : List Hunk) (hwf : ∀ h ∈ hs, h.WF) : ∃ bytes, ctxRejectBody hs = .ok bytes := by
  induction hs with
  | nil => exact ⟨[], rfl⟩
  | cons h hs ih =>
    obtain ⟨b, hb⟩ := Apply.writeHunkContext_ok h (hwf h List.mem_cons_self)
    obtain ⟨rest, hrest⟩ := ih (fun x hx => hwf x (List.mem_cons_of_mem _ hx))
    exact ⟨_, by rw [ctxRejectBody, hb, hrest]⟩

/-- writing never fails for writable hunks -/
theorem context_write_ok (hs : List Hunk) (hw : ∀ h ∈ hs, h.writable = true) : ∃ bytes, ctxRejectBody hs = .ok bytes :=
  ctxRejectBody_ok hs (fun h hh => writable_WF h (hw h hh))

section Reject
open PatchModel.Apply

/-! ### the reject file of a run -/

/-- what a successful `finishHunk` did to the reject file -/
theorem finishHunk_rej {file : List Line} {o : ApplyOpts} {p : Patch} {s s' : AState} {num : Nat} {h : Hunk}
    {loc : Option Location} (hs : finishHunk file o p s num h loc = .ok s') :
    (s'.rejBytes = s.rejBytes ∧ s'.rejected = s.rejected) ∨
    (∃ h' b, writeReject p o.rejectFormat s.rejected.length h' = .ok b ∧ s'.rejBytes = s.rejBytes ++ b ∧
      s'.rejected = s.rejected ++ [(num, h')]) := by
  unfold finishHunk at hs
  simp only [] at hs
  split at hs
  · cases hs
  · next s1 hs1 =>
    split at hs1
    · next l hl =>
      left
      split at hs1
      · cases hs1
      · split at hs1
        · cases hs1
        · cases hs1
          cases hs
          (repeat' split) <;> exact ⟨rfl, rfl⟩
    · next hl =>
      right
      split at hs1
      · cases hs1
      · next b hb =>
        cases hs1
        cases hs
        refine ⟨_, b, hb, ?_⟩
        (repeat' split) <;> exact ⟨rfl, rfl⟩

theorem ctxRejectBody_snoc (hs : List Hunk) (h : Hunk) (body b : Bytes)
    (h1 : ctxRejectBody hs = .ok body) (h2 : writeHunkContext h = .ok b) :
    ctxRejectBody (hs ++ [h]) = .ok (body ++ (if hs.isEmpty then [] else starsLine) ++ b) := by
  induction hs generalizing body with
  | nil =>
    simp only [ctxRejectBody] at h1
    cases h1
    simp [ctxRejectBody, h2]
  | cons x xs ih =>
    rw [ctxRejectBody] at h1
    split at h1
    · next bx rest hx hr =>
      cases h1
      rw [List.cons_append, ctxRejectBody, hx, ih rest hr]
      cases xs with
      | nil => simp only [ctxRejectBody] at hr; cases hr; simp
      | cons y ys => simp
    · cases h1
    · cases h1

/-- the reject bytes written so far, in terms of the hunks rejected so far -/
def RejBytesInv (p : Patch) (fmt : RejectFormat) (s : AState) : Prop :=
  (rejectAsUnified fmt p.format = true →
    s.rejBytes = (if s.rejected = [] then [] else writeHeaderUnified p) ++ (s.rejected.map (·.2)).flatMap writeHunkUnified) ∧
  (rejectAsUnified fmt p.format = false →
    ∃ body, ctxRejectBody (s.rejected.map (·.2)) = .ok body ∧
      s.rejBytes = (if s.rejected = [] then [] else writeHeaderContext p) ++ body)

theorem finishHunk_rejBytesInv {file : List Line} {o : ApplyOpts} {p : Patch} {s s' : AState} {num : Nat} {h : Hunk}
    {loc : Option Location} (hs : finishHunk file o p s num h loc = .ok s')
    (hinv : RejBytesInv p o.rejectFormat s) : RejBytesInv p o.rejectFormat s' := by
  rcases finishHunk_rej hs with ⟨e1, e2⟩ | ⟨h', b, hb, e1, e2⟩
  · unfold RejBytesInv; rw [e1, e2]; exact hinv
  · unfold writeReject at hb
    constructor
    · intro hu
      rw [hu] at hb
      simp only [if_true] at hb
      cases hb
      rw [e1, e2, hinv.1 hu]
      cases hr : s.rejected with
      | nil => simp
      | cons a r => simp
    · intro hu
      rw [hu] at hb
      simp only [Bool.false_eq_true, if_false] at hb
      split at hb
      · cases hb
      · next bb hbb =>
        cases hb
        obtain ⟨body, hbody, hbytes⟩ := hinv.2 hu
        refine ⟨body ++ (if (s.rejected.map (·.2)).isEmpty then [] else starsLine) ++ bb, ?_, ?_⟩
        · rw [e2, List.map_append, List.map_singleton]
          exact ctxRejectBody_snoc _ _ _ _ hbody hbb
        · rw [e1, e2, hbytes]
          cases hr : s.rejected with
          | nil =>
            rw [hr] at hbody
            simp only [List.map_nil, ctxRejectBody] at hbody
            cases hbody
            simp
          | cons a r => simp [starsLine]

theorem applyRest_rejBytesInv {file : List Line} {o : ApplyOpts} {p : Patch} :
    ∀ (hs : List Hunk) (s : AState) (num : Nat) (s' : AState), applyRest file o p s num hs = .ok s' →
      RejBytesInv p o.rejectFormat s → RejBytesInv p o.rejectFormat s' := by
  intro hs
  induction hs with
  | nil => intro s num s' hr hinv; rw [applyRest] at hr; cases hr; exact hinv
  | cons h rest ih =>
    intro s num s' hr hinv
    rw [applyRest] at hr
    split at hr
    · cases hr
    · next s1 hs1 => exact ih s1 (num + 1) s' hr (finishHunk_rejBytesInv hs1 hinv)

/-- rejected hunk numbers increase -/
def RejOrdInv (num : Nat) (s : AState) : Prop :=
  List.Pairwise (· < ·) (s.rejected.map (·.1)) ∧ ∀ i ∈ s.rejected.map (·.1), i < num

theorem finishHunk_rejOrdInv {file : List Line} {o : ApplyOpts} {p : Patch} {s s' : AState} {num : Nat} {h : Hunk}
    {loc : Option Location} (hs : finishHunk file o p s num h loc = .ok s')
    (hinv : RejOrdInv num s) : RejOrdInv (num + 1) s' := by
  rcases finishHunk_rej hs with ⟨_, e2⟩ | ⟨h', b, _, _, e2⟩
  · unfold RejOrdInv; rw [e2]; exact ⟨hinv.1, fun i hi => Nat.lt_succ_of_lt (hinv.2 i hi)⟩
  · unfold RejOrdInv
    rw [e2, List.map_append, List.map_singleton]
    constructor
    · rw [List.pairwise_append]
      refine ⟨hinv.1, List.pairwise_singleton _ _, ?_⟩
      intro a ha b hb
      simp only [List.mem_singleton] at hb
      subst hb
      exact hinv.2 a ha
    · intro i hi
      rcases List.mem_append.1 hi with hi | hi
      · exact Nat.lt_succ_of_lt (hinv.2 i hi)
      · simp only [List.mem_singleton] at hi; omega

theorem applyRest_rejOrdInv {file : List Line} {o : ApplyOpts} {p : Patch} :
    ∀ (hs : List Hunk) (s : AState) (num : Nat) (s' : AState), applyRest file o p s num hs = .ok s' →
      RejOrdInv num s → RejOrdInv (num + hs.length) s' := by
  intro hs
  induction hs with
  | nil => intro s num s' hr hinv; rw [applyRest] at hr; cases hr; exact hinv
  | cons h rest ih =>
    intro s num s' hr hinv
    rw [applyRest] at hr
    split at hr
    · cases hr
    · next s1 hs1 =>
      have := ih s1 (num + 1) s' hr (finishHunk_rejOrdInv hs1 hinv)
      rw [List.length_cons, ← Nat.add_assoc, Nat.add_right_comm]
      exact this

/-- `applyPatch_cases` with the additional fact that the reject file starts empty -/
theorem applyPatch_cases_rej (file : List Line) (p0 : Patch) (o : ApplyOpts) (tty : Option (List Bool)) :
    (applyPatch file p0 o tty = .error .systemError ∧ o.ignoreReversed = false ∧ o.batch = false ∧
        o.force = false ∧ tty = none) ∨
    ∃ p' s1, InitState s1 ∧ s1.rejBytes = [] ∧
      (p'.hunks = p0.hunks ∨ p'.hunks = p0.hunks.map reverseHunk ∨
        p'.hunks = (p0.hunks.map reverseHunk).map reverseHunk) ∧
      applyPatch file p0 o tty = runLoop file o p' s1 := by
  have hp : ∃ p : Patch, (if o.reverse then reversePatch p0 else p0) = p ∧
      (p.hunks = p0.hunks ∨ p.hunks = p0.hunks.map reverseHunk) := by
    refine ⟨_, rfl, ?_⟩
    split
    · right; rfl
    · left; rfl
  obtain ⟨p, hpe, hph⟩ := hp
  suffices H : ∀ res, applyPatch file p0 o tty = res →
      (res = .error .systemError ∧ o.ignoreReversed = false ∧ o.batch = false ∧ o.force = false ∧ tty = none) ∨
      ∃ p' s1, InitState s1 ∧ s1.rejBytes = [] ∧
        (p'.hunks = p0.hunks ∨ p'.hunks = p0.hunks.map reverseHunk ∨
          p'.hunks = (p0.hunks.map reverseHunk).map reverseHunk) ∧ res = runLoop file o p' s1 from H _ rfl
  intro res hres
  unfold applyPatch at hres
  simp only [hpe] at hres
  have hph' : p.hunks = p0.hunks ∨ p.hunks = p0.hunks.map reverseHunk ∨
          p.hunks = (p0.hunks.map reverseHunk).map reverseHunk := by
    rcases hph with h | h
    · exact Or.inl h
    · exact Or.inr (Or.inl h)
  split at hres
  · next hh =>
    right
    refine ⟨p, { tty := tty }, ⟨rfl, rfl, rfl, rfl, rfl⟩, rfl, hph', ?_⟩
    rw [← hres]; unfold runLoop; rw [hh]; rfl
  · next h0 rest hh =>
    split at hres
    · next hchk =>
      split at hres
      · next e hdec =>
        left
        split at hdec
        · split at hdec
          · next e' he' =>
            cases hdec
            obtain ⟨h1, h2, h3, h4⟩ := checkReversed_error he'
            subst h1
            exact ⟨hres.symm, h2, h3, shouldCheckReversed_force hchk, h4⟩
          · cases hdec
        · cases hdec
      · next rh ms tty' hdec =>
        right
        split at hres
        · have hrm : (reversePatch p).hunks = p.hunks.map reverseHunk := rfl
          have hrh : (reversePatch p).hunks = reverseHunk h0 :: rest.map reverseHunk := by
            rw [hrm, hh, List.map_cons]
          refine ⟨reversePatch p, { msgs := ms, tty := tty' },
            ⟨rfl, rfl, rfl, rfl, rfl⟩, rfl, ?_, ?_⟩
          · rcases hph with h | h
            · exact Or.inr (Or.inl (by rw [hrm, h]))
            · exact Or.inr (Or.inr (by rw [hrm, h]))
          · rw [runLoop_cons (h := reverseHunk h0) (rest := rest.map reverseHunk) hrh rfl rfl]
            exact hres.symm
        · refine ⟨p, { skip := true, msgs := ms, tty := tty' }, ⟨rfl, rfl, rfl, rfl, rfl⟩, rfl, hph', ?_⟩
          rw [runLoop_cons hh rfl rfl]
          exact hres.symm
        · refine ⟨p, { msgs := ms, tty := tty' }, ⟨rfl, rfl, rfl, rfl, rfl⟩, rfl, hph', ?_⟩
          rw [runLoop_cons hh rfl rfl]
          exact hres.symm
    · right
      refine ⟨p, { tty := tty }, ⟨rfl, rfl, rfl, rfl, rfl⟩, rfl, hph', ?_⟩
      rw [runLoop_cons hh rfl rfl]
      exact hres.symm


theorem applyPatch_ok_cases_rej {file : List Line} {p0 : Patch} {o : ApplyOpts} {tty : Option (List Bool)} {r : ApplyResult}
    (hr : applyPatch file p0 o tty = .ok r) :
    ∃ p' s1 s3, InitState s1 ∧ s1.rejBytes = [] ∧
      applyRest file o p' s1 0 p'.hunks = .ok s3 ∧ r = finishResult file p' s3 := by
  rcases applyPatch_cases_rej file p0 o tty with ⟨he, _⟩ | ⟨p', s1, hi, hb, _, he⟩
  · rw [he] at hr; cases hr
  · rw [he] at hr
    unfold runLoop at hr
    split at hr
    · cases hr
    · next s3 h3 => cases hr; exact ⟨p', s1, s3, hi, hb, h3, rfl⟩

theorem reject_bytes_layout (file : List Line) (p0 : Patch) (o : ApplyOpts) (tty : Option (List Bool)) (r : ApplyResult)
    (hr : applyPatch file p0 o tty = .ok r) (hne : r.rejected ≠ []) :
    (rejectAsUnified o.rejectFormat r.patch.format = true →
      r.rejBytes = writeHeaderUnified r.patch ++ (r.rejected.map (·.2)).flatMap writeHunkUnified) ∧
    (rejectAsUnified o.rejectFormat r.patch.format = false →
      ∃ body, ctxRejectBody (r.rejected.map (·.2)) = .ok body ∧
        r.rejBytes = str "*** " ++ r.patch.oldPath
            ++ (if r.patch.oldTime ≠ [] ∧ r.patch.oldPath ≠ devNull then [TAB] ++ r.patch.oldTime else []) ++ [NL]
          ++ str "--- " ++ r.patch.newPath
            ++ (if r.patch.newTime ≠ [] ∧ r.patch.newPath ≠ devNull then [TAB] ++ r.patch.newTime else []) ++ [NL]
          ++ starsLine ++ body) ∧
    List.Pairwise (· < ·) (r.rejected.map (·.1)) := by
  obtain ⟨p', s1, s3, hi, hb, h3, rfl⟩ := applyPatch_ok_cases_rej hr
  have hinv1 : RejBytesInv p' o.rejectFormat s1 := by
    constructor
    · intro _; rw [hb, hi.rejected]; rfl
    · intro _; exact ⟨[], by rw [hi.rejected]; rfl, by rw [hb, hi.rejected]; rfl⟩
  have hinv3 := applyRest_rejBytesInv p'.hunks s1 0 s3 h3 hinv1
  have hord3 := applyRest_rejOrdInv p'.hunks s1 0 s3 h3
    ⟨by rw [hi.rejected]; exact List.Pairwise.nil, by rw [hi.rejected]; intro i hi; cases hi⟩
  simp only [finishResult] at hne ⊢
  refine ⟨?_, ?_, hord3.1⟩
  · intro hu
    rw [hinv3.1 hu, if_neg hne]
  · intro hu
    obtain ⟨body, h1, h2⟩ := hinv3.2 hu
    refine ⟨body, h1, ?_⟩
    rw [h2, if_neg hne]
    simp only [writeHeaderContext, headerLine, starsLine, List.append_assoc]
    rfl


end Reject

end PatchModel.Unified
