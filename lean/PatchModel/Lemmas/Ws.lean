/-
  Lemmas/Ws — the whitespace-insensitive comparison `miw` is equality of the `normWs` normal forms,
  and `lineMatches` is the spec relation `lineEqB`.
-/
import PatchModel.Spec.Place
namespace PatchModel

theorem normWs_nil : normWs [] = [] := by simp [normWs]

theorem normWs_cons_ws {c : UInt8} {cs : Bytes} (h : isWs c = true) :
    normWs (c :: cs) = if (dropWs cs).isEmpty then [] else 32 :: normWs (dropWs cs) := by
  rw [normWs]; simp [h]

theorem normWs_cons_nws {c : UInt8} {cs : Bytes} (h : isWs c = false) :
    normWs (c :: cs) = c :: normWs cs := by
  rw [normWs]; simp [h]

theorem nws_ne_32 {c : UInt8} (h : isWs c = false) : c ≠ 32 := by
  intro e; subst e; simp [isWs] at h

/-- `matches_ignoring_whitespace` decides equality of the `-l` normal forms -/
theorem miw_iff_normWs (as bs : Bytes) : miw as bs = true ↔ normWs as = normWs bs := by
  fun_induction miw as bs with
  | case1 => simp
  | case2 a as' h =>
    rw [normWs_cons_ws h, normWs_nil]
    cases hd : dropWs as' with
    | nil => simp
    | cons x xs => simp
  | case3 a as' h =>
    have h' : isWs a = false := by simpa using h
    rw [normWs_cons_nws h', normWs_nil]; simp
  | case4 b bs hb =>
    rw [normWs_cons_ws hb, normWs_nil]
    cases hd : dropWs bs with
    | nil => simp
    | cons x xs => simp
  | case5 b bs hb a as' ha =>
    have ha' : isWs a = false := by simpa using ha
    rw [normWs_cons_ws hb, normWs_cons_nws ha']
    have := nws_ne_32 ha'
    split <;> simp [this]
  | case6 b bs hb a as' ha hda =>
    have ha' : isWs a = true := by simpa using ha
    rw [normWs_cons_ws hb, normWs_cons_ws ha']
    simp [hda]
  | case7 b bs hb a as' ha hda hdb =>
    have ha' : isWs a = true := by simpa using ha
    rw [normWs_cons_ws hb, normWs_cons_ws ha']
    simp [hda, hdb]
  | case8 b bs hb a as' ha hda hdb ih =>
    have ha' : isWs a = true := by simpa using ha
    rw [normWs_cons_ws hb, normWs_cons_ws ha']
    simp [hda, hdb, ih]
  | case9 b bs hb =>
    have hb' : isWs b = false := by simpa using hb
    rw [normWs_nil, normWs_cons_nws hb']; simp
  | case10 b bs hb a as' hne =>
    have hb' : isWs b = false := by simpa using hb
    rw [normWs_cons_nws hb']
    by_cases ha : isWs a = true
    · rw [normWs_cons_ws ha]
      have := nws_ne_32 hb'
      split <;> simp [Ne.symm this]
    · have ha' : isWs a = false := by simpa using ha
      rw [normWs_cons_nws ha']
      simp at hne
      simp [hne]
  | case11 b bs hb a as' hne ih =>
    have hb' : isWs b = false := by simpa using hb
    simp at hne
    subst hne
    rw [normWs_cons_nws hb', normWs_cons_nws hb']
    simp [ih]

/-- Bool-valued form of `miw_iff_normWs` -/
theorem miw_eq_normWs_beq (as bs : Bytes) : miw as bs = (normWs as == normWs bs) := by
  rw [Bool.eq_iff_iff, miw_iff_normWs]; simp

/-- `matches` is the spec relation `lineEqB` -/
theorem lineMatches_eq_lineEqB (a b : Line) (iw : Bool) : lineMatches a b iw = lineEqB iw a b := by
  unfold lineMatches lineEqB
  rw [miw_eq_normWs_beq]
  cases a with | mk ac an =>
  cases b with | mk bc bn =>
  by_cases h1 : an = bn ∧ ac = bc
  · obtain ⟨rfl, rfl⟩ := h1
    simp
  · have hne : (Line.mk ac an == Line.mk bc bn) = false := by
      simp only [beq_eq_false_iff_ne, ne_eq, Line.mk.injEq]
      intro ⟨e1, e2⟩; exact h1 ⟨e2, e1⟩
    simp only [h1, ↓reduceIte, hne, Bool.false_or]
    cases iw with
    | false => simp
    | true =>
      simp only [Bool.not_true, Bool.false_eq_true, ↓reduceIte, Bool.true_and]
      by_cases h2 : ac = bc
      · subst h2; simp
      · simp [h2]

end PatchModel
