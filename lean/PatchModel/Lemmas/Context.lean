/-
  Lemmas/Context — the context-format reject writer (`writeHunkContext`) as a list of text lines, and the
  context body parser (`parseContextHunk`, `hunkFromContextParts`, `parseContextBody`) run on those lines
  (helper lemmas for C13, context half).  A line of text is a `Line`: its content and the terminator it is written with
  (LF, or CR LF for a hunk line that came with CR LF — `lineEnd`).
  The text form of a hunk line is its wire form (`wireOf`, `Unified.wire`): a line without newline whose content ends in CR
  stands in the text as a CR LF terminated line followed by the marker, and the marker (`mark_as_unterminated`) gives the
  CR back; so the chain is stated for `Unified.writableCR` hunks (`Unified.okLine`), `writable` ones being a special case.
-/
import PatchModel.Spec.Diff
import PatchModel.Lemmas.Cpp
import PatchModel.Lemmas.Apply
import PatchModel.Lemmas.Unified
namespace PatchModel.Context
open PatchModel

/-! ### string literals as explicit byte lists -/

theorem str_old4 : str "*** " = [42, 42, 42, 32] := by
  unfold str String.toUTF8; rw [Cpp.byteArray_toList_eq_data]; rfl
theorem str_old5 : str " ****" = [32, 42, 42, 42, 42] := by
  unfold str String.toUTF8; rw [Cpp.byteArray_toList_eq_data]; rfl
theorem str_old5nl : str " ****\n" = [32, 42, 42, 42, 42, 10] := by
  unfold str String.toUTF8; rw [Cpp.byteArray_toList_eq_data]; rfl
theorem str_new4 : str "--- " = [45, 45, 45, 32] := by
  unfold str String.toUTF8; rw [Cpp.byteArray_toList_eq_data]; rfl
theorem str_new5 : str " ----" = [32, 45, 45, 45, 45] := by
  unfold str String.toUTF8; rw [Cpp.byteArray_toList_eq_data]; rfl
theorem str_new5nl : str " ----\n" = [32, 45, 45, 45, 45, 10] := by
  unfold str String.toUTF8; rw [Cpp.byteArray_toList_eq_data]; rfl
theorem str_stars10 : str "**********" = [42, 42, 42, 42, 42, 42, 42, 42, 42, 42] := by
  unfold str String.toUTF8; rw [Cpp.byteArray_toList_eq_data]; rfl
theorem str_stars15 : str "***************" = [42, 42, 42, 42, 42, 42, 42, 42, 42, 42, 42, 42, 42, 42, 42] := by
  unfold str String.toUTF8; rw [Cpp.byteArray_toList_eq_data]; rfl
theorem str_stars15nl : str "***************\n" = [42, 42, 42, 42, 42, 42, 42, 42, 42, 42, 42, 42, 42, 42, 42, 10] := by
  unfold str String.toUTF8; rw [Cpp.byteArray_toList_eq_data]; rfl

/-- `\ No newline at end of file` -/
def markerText : Bytes :=
  [92, 32, 78, 111, 32, 110, 101, 119, 108, 105, 110, 101, 32, 97, 116, 32, 101, 110, 100, 32, 111, 102, 32, 102, 105, 108, 101]

theorem noNewlineMarker_eq : noNewlineMarker = markerText ++ [NL] := by
  unfold noNewlineMarker str String.toUTF8; rw [Cpp.byteArray_toList_eq_data]; rfl

/-- the separator line, without its terminator -/
def starsText : Bytes := [42, 42, 42, 42, 42, 42, 42, 42, 42, 42, 42, 42, 42, 42, 42]

theorem starsLine_eq : starsLine = starsText ++ [NL] := by
  unfold starsLine; rw [str_stars15nl]; rfl

/-! ### text made of terminated plain lines -/

/-- a byte string that survives being written as `t LF` (or `t CR LF`) and read back -/
def PlainText (t : Bytes) : Prop := NL ∉ t ∧ t.getLast? ≠ some CR

/-- a line of text that `splitLines` gives back as it is: no LF inside, terminated by LF or CR LF, and no CR at the end of
    the content of a line terminated by LF (it would be read as part of a CR LF) -/
def PlainL (l : Line) : Prop := NL ∉ l.content ∧ l.newline ≠ .none ∧ (l.newline = .lf → l.content.getLast? ≠ some CR)

/-- the bytes of a list of lines, each written with its own terminator -/
def unlines (ls : List Line) : Bytes := ls.flatMap fun l => l.content ++ lineEnd l

@[simp] theorem unlines_nil : unlines [] = [] := rfl
@[simp] theorem unlines_cons (l : Line) (ls : List Line) :
    unlines (l :: ls) = l.content ++ (lineEnd l ++ unlines ls) := by
  simp [unlines]
theorem unlines_append (as bs : List Line) : unlines (as ++ bs) = unlines as ++ unlines bs := by
  simp [unlines]

def lfLine (c : Bytes) : Line := ⟨c, .lf⟩

theorem lineEnd_lfLine (c : Bytes) : lineEnd (lfLine c) = [NL] := rfl

theorem plainL_lf {t : Bytes} (h : PlainText t) : PlainL (lfLine t) := ⟨h.1, by simp [lfLine], fun _ => h.2⟩

/-- text made of plain lines is read back as those lines, terminator classes included -/
theorem splitLines_unlines (ls : List Line) (h : ∀ l ∈ ls, PlainL l) : splitLines (unlines ls) = ls := by
  induction ls with
  | nil => simp [splitLines, splitLinesGo]
  | cons l ls ih =>
    obtain ⟨h1, h3, h2⟩ := h l (by simp)
    have h2' : l.newline ≠ .crlf → l.content.getLast? ≠ some CR := by
      intro hc; apply h2
      rcases l with ⟨c, nl⟩
      cases nl
      · rfl
      · exact absurd rfl hc
      · exact absurd rfl h3
    rw [unlines_cons, Unified.splitLines_wire' _ _ _ h1 h2', Unified.wireNl_of_ne_none h3,
      ih (fun l' hl' => h l' (by simp [hl']))]

/-! ### the writer's output as text lines -/

def halfText (l : PatchLine) : Bytes := l.op :: SP :: l.line.content

/-- a line as the parser reads it back, before the missing-newline marker is looked at: a line that came with CR LF is
    written with CR LF; a line without newline is written with LF (and the marker after it), so that a CR its content ends
    in stands in the text as part of a CR LF terminator (`Unified.wire`) -/
def wireOf (l : PatchLine) : PatchLine := ⟨l.op, Unified.wire l.line⟩

/-- a line of a half as a line of text -/
def halfLine (l : PatchLine) : Line := ⟨halfText (wireOf l), (wireOf l).line.newline⟩

theorem halfLine_newline_ne_none (l : PatchLine) : (halfLine l).newline ≠ .none := (Unified.wireOK_wire l.line).1

/-- (replaces `lineEnd_halfLine : lineEnd (halfLine l) = lineEnd l.line`, which no longer holds for a line without newline
    that ends in CR: the bytes are the same, the split into content and terminator is not) -/
theorem halfLine_bytes (l : PatchLine) :
    (halfLine l).content ++ lineEnd (halfLine l) = [l.op, SP] ++ l.line.content ++ lineEnd l.line := by
  rcases l with ⟨op, ⟨c, nl⟩⟩
  cases nl with
  | lf => rfl
  | crlf => rfl
  | none =>
    simp only [halfLine, wireOf, halfText, Unified.wire, if_true, lineEnd]
    unfold mkLine
    split
    · next hc =>
      have := Render.dropLast_append_of_getLast? c CR hc
      simp only [if_true, List.cons_append, List.nil_append, List.cons.injEq, true_and]
      calc c.dropLast ++ [CR, NL] = (c.dropLast ++ [CR]) ++ [NL] := by simp
        _ = c ++ [NL] := by rw [this]
    · simp

def lastNone (ls : List PatchLine) : Bool :=
  match ls.getLast? with
  | some l => decide (l.line.newline = .none)
  | none => false

def halfTexts (ls : List PatchLine) : List Line :=
  ls.map halfLine ++ (if lastNone ls then [lfLine markerText] else [])

def rangeEnd (r : Range) : Int := if r.count > 1 then r.start + r.count - 1 else r.start

def rangeMid (r : Range) : Bytes :=
  intDigits r.start ++ (if r.count > 1 then 44 :: intDigits (r.start + r.count - 1) else [])

def oldRangeText (r : Range) : Bytes := [42, 42, 42, 32] ++ rangeMid r ++ [32, 42, 42, 42, 42]
def newRangeText (r : Range) : Bytes := [45, 45, 45, 32] ++ rangeMid r ++ [32, 45, 45, 45, 45]

def halvesTexts (O : List PatchLine) (oR : Range) (N : List PatchLine) (nR : Range) : List Line :=
  lfLine (oldRangeText oR) :: (halfTexts O ++ lfLine (newRangeText nR) :: halfTexts N)

theorem unlines_halfTexts (ls : List PatchLine) :
    unlines (halfTexts ls) =
      (match ls.getLast? with
       | none => []
       | some last =>
         (ls.flatMap fun l => [l.op, SP] ++ l.line.content ++ lineEnd l.line)
           ++ (if last.line.newline = NewLine.none then noNewlineMarker else [])) := by
  unfold halfTexts lastNone
  rw [unlines_append]
  have h1 : unlines (ls.map halfLine) = ls.flatMap fun l => [l.op, SP] ++ l.line.content ++ lineEnd l.line := by
    simp only [unlines, List.flatMap_map, halfLine_bytes]
  cases hl : ls.getLast? with
  | none =>
    have : ls = [] := by simpa using hl
    subst this; simp
  | some last =>
    simp only [h1]
    by_cases hn : last.line.newline = NewLine.none
    · simp [hn, noNewlineMarker_eq, lfLine, lineEnd]
    · simp [hn]

theorem writeContextHalves_eq (O : List PatchLine) (oR : Range) (N : List PatchLine) (nR : Range) :
    writeContextHalves O oR N nR = unlines (halvesTexts O oR N nR) := by
  unfold writeContextHalves halvesTexts
  conv => rhs; rw [unlines_cons, unlines_append, unlines_cons, unlines_halfTexts, unlines_halfTexts]
  simp only [lfLine, str_old4, str_old5nl, str_new4, str_new5nl, oldRangeText, newRangeText, rangeMid]
  by_cases h1 : oR.count > 1 <;> by_cases h2 : nR.count > 1 <;> simp [h1, h2, NL] <;> rfl

/-! ### every emitted line is plain -/

theorem isDigit_digitChar : ∀ d, d < 10 → isDigit (digitChar d) = true := by decide

theorem natDigitsAux_digits (n : Nat) (acc : Bytes) (hacc : ∀ c ∈ acc, isDigit c = true) :
    ∀ c ∈ natDigitsAux n acc, isDigit c = true := by
  fun_induction natDigitsAux n acc with
  | case1 n acc h =>
    intro c hc
    rcases List.mem_cons.mp hc with rfl | hc
    · exact isDigit_digitChar n h
    · exact hacc c hc
  | case2 n acc h ih =>
    apply ih
    intro c hc
    rcases List.mem_cons.mp hc with rfl | hc
    · exact isDigit_digitChar _ (by omega)
    · exact hacc c hc

theorem intDigits_digits (i : Int) (h : 0 ≤ i) : ∀ c ∈ intDigits i, isDigit c = true := by
  unfold intDigits natDigits
  rw [if_neg (by omega)]
  exact natDigitsAux_digits _ _ (by simp)

theorem natDigitsAux_ne_nil (n : Nat) (acc : Bytes) : natDigitsAux n acc ≠ [] := by
  fun_induction natDigitsAux n acc with
  | case1 n acc h => simp
  | case2 n acc h ih => exact ih

theorem intDigits_ne_nil (i : Int) : intDigits i ≠ [] := by
  unfold intDigits natDigits
  split
  · simp
  · exact natDigitsAux_ne_nil _ _

theorem isDigit_ne_NL {c : UInt8} (h : isDigit c = true) : c ≠ NL := by
  intro hc; subst hc; revert h; decide

theorem mem_rangeMid (r : Range) (hs : 0 ≤ r.start) (hc : 0 ≤ r.count) :
    ∀ c ∈ rangeMid r, isDigit c = true ∨ c = 44 := by
  intro c hc'
  unfold rangeMid at hc'
  rcases List.mem_append.mp hc' with h | h
  · exact .inl (intDigits_digits _ hs c h)
  · split at h
    · rcases List.mem_cons.mp h with rfl | h
      · exact .inr rfl
      · exact .inl (intDigits_digits _ (by have := hc; omega) c h)
    · simp at h

theorem NL_notMem_rangeMid (r : Range) (hs : 0 ≤ r.start) (hc : 0 ≤ r.count) : NL ∉ rangeMid r := by
  intro h
  rcases mem_rangeMid r hs hc NL h with h | h
  · exact isDigit_ne_NL h rfl
  · revert h; decide

theorem plain_oldRangeText (r : Range) (hs : 0 ≤ r.start) (hc : 0 ≤ r.count) : PlainText (oldRangeText r) := by
  have := NL_notMem_rangeMid r hs hc
  constructor
  · unfold oldRangeText
    simp only [List.mem_append, not_or]
    exact ⟨⟨by decide, this⟩, by decide⟩
  · unfold oldRangeText
    rw [List.getLast?_append]; simp [CR]

theorem plain_newRangeText (r : Range) (hs : 0 ≤ r.start) (hc : 0 ≤ r.count) : PlainText (newRangeText r) := by
  have := NL_notMem_rangeMid r hs hc
  constructor
  · unfold newRangeText
    simp only [List.mem_append, not_or]
    exact ⟨⟨by decide, this⟩, by decide⟩
  · unfold newRangeText
    rw [List.getLast?_append]; simp [CR]

theorem plain_markerText : PlainText markerText := by
  constructor <;> decide

theorem plain_starsText : PlainText starsText := by
  constructor <;> decide

theorem plain_halfText (l : PatchLine) (hop : l.op ≠ NL) (hp : Unified.okLine l.line = true) : PlainL (halfLine l) := by
  unfold Unified.okLine at hp
  simp only [Bool.and_eq_true, Bool.not_eq_true', Bool.or_eq_true, bne_iff_ne, ne_eq] at hp
  obtain ⟨h1, h2⟩ := hp
  have h1' : NL ∉ l.line.content := by
    simpa using h1
  have hsub : ∀ b ∈ (Unified.wire l.line).content, b ∈ l.line.content := by
    unfold Unified.wire
    split
    · exact Render.mkLine_content_subset _
    · exact fun b hb => hb
  refine ⟨?_, halfLine_newline_ne_none l, ?_⟩
  · show NL ∉ l.op :: SP :: (Unified.wire l.line).content
    intro h
    rcases List.mem_cons.mp h with h | h
    · exact hop h.symm
    · rcases List.mem_cons.mp h with h | h
      · revert h; decide
      · exact h1' (hsub _ h)
  · show (Unified.wire l.line).newline = .lf → (l.op :: SP :: (Unified.wire l.line).content).getLast? ≠ some CR
    intro hlf
    have hw : (Unified.wire l.line).content.getLast? ≠ some CR := by
      unfold Unified.wire at hlf ⊢
      split at hlf
      · next hn =>
        rw [if_pos hn]
        unfold mkLine at hlf ⊢
        split at hlf
        · cases hlf
        · next hc => rw [if_neg hc]; exact hc
      · next hn =>
        rw [if_neg hn]
        rcases h2 with h | h
        · exact absurd hlf h
        · exact h
    cases hc : (Unified.wire l.line).content with
    | nil => simp [SP, CR]
    | cons a as =>
      rw [hc] at hw
      simpa [List.getLast?_cons_cons] using hw

theorem plain_halfTexts (ls : List PatchLine) (hop : ∀ l ∈ ls, l.op ≠ NL) (hp : ∀ l ∈ ls, Unified.okLine l.line = true) :
    ∀ t ∈ halfTexts ls, PlainL t := by
  intro t ht
  unfold halfTexts at ht
  rcases List.mem_append.mp ht with h | h
  · obtain ⟨l, hl, rfl⟩ := List.mem_map.mp h
    exact plain_halfText l (hop l hl) (hp l hl)
  · split at h
    · simp at h; subst h; exact plainL_lf plain_markerText
    · simp at h

/-! ### the two halves computed by the writer -/

def ctxs (ls : List PatchLine) : List Line := (ls.filter (·.op == SP)).map (·.line)

def OldOps (ls : List PatchLine) : Prop := ∀ l ∈ ls, l.op = SP ∨ l.op = MINUS ∨ l.op = BANG
def NewOps (ls : List PatchLine) : Prop := ∀ l ∈ ls, l.op = SP ∨ l.op = PLUS ∨ l.op = BANG

theorem relabelFrom_split (pre post : List PatchLine) :
    relabelFrom (pre ++ post) pre.length = pre ++ post.map fun l => { l with op := BANG } := by
  simp [relabelFrom]

theorem ctxs_append (a b : List PatchLine) : ctxs (a ++ b) = ctxs a ++ ctxs b := by
  simp [ctxs]

theorem ctxs_noSP (post : List PatchLine) (h : ∀ l ∈ post, l.op ≠ SP) : ctxs post = [] := by
  simp only [ctxs, List.map_eq_nil_iff, List.filter_eq_nil_iff]
  intro l hl; simpa using h l hl

structure CtxInv (c : List PatchLine) (s : CtxState) : Prop where
  oldLine : s.oldLines.map (·.line) = oldOf c
  newLine : s.newLines.map (·.line) = newOf c
  oldCtx : ctxs s.oldLines = ctxs c
  newCtx : ctxs s.newLines = ctxs c
  oldOps : OldOps s.oldLines
  newOps : NewOps s.newLines
  allIns : s.allIns = c.all (·.op != MINUS)
  allDel : s.allDel = c.all (·.op != PLUS)
  oldSplit : ∃ pre post, s.oldLines = pre ++ post ∧ pre.length = s.oldLast ∧ ∀ l ∈ post, l.op ≠ SP
  newSplit : ∃ pre post, s.newLines = pre ++ post ∧ pre.length = s.newLast ∧ ∀ l ∈ post, l.op ≠ SP

theorem CtxInv.init : CtxInv [] {} := by
  constructor <;> first | exact ⟨[], [], rfl, rfl, by simp⟩ | simp [oldOf, newOf, ctxs, OldOps, NewOps]

theorem oldOf_append (a b : List PatchLine) : oldOf (a ++ b) = oldOf a ++ oldOf b := by simp [oldOf]
theorem newOf_append (a b : List PatchLine) : newOf (a ++ b) = newOf a ++ newOf b := by simp [newOf]
theorem PLUS_beq_SP : (PLUS == SP) = false := by decide
theorem MINUS_beq_SP : (MINUS == SP) = false := by decide
theorem MINUS_beq_PLUS : (MINUS == PLUS) = false := by decide

theorem BANG_ne_SP : BANG ≠ SP := by decide

theorem CtxInv.makeChange {c : List PatchLine} {s : CtxState} (hi : CtxInv c s) (op : UInt8) :
    CtxInv c (s.makeChange op) := by
  unfold CtxState.makeChange
  split
  · obtain ⟨po, qo, ho, hlo, hqo⟩ := hi.oldSplit
    obtain ⟨pn, qn, hn, hln, hqn⟩ := hi.newSplit
    have e1 : relabelFrom s.oldLines s.oldLast = po ++ qo.map fun l => { l with op := BANG } := by
      rw [ho, ← hlo, relabelFrom_split]
    have e2 : relabelFrom s.newLines s.newLast = pn ++ qn.map fun l => { l with op := BANG } := by
      rw [hn, ← hln, relabelFrom_split]
    have hb : ∀ (q : List PatchLine), ∀ l ∈ q.map (fun l => { l with op := BANG }), l.op ≠ SP := by
      intro q l hl
      obtain ⟨l', _, rfl⟩ := List.mem_map.mp hl
      exact BANG_ne_SP
    constructor
    · simp only [e1]; rw [← hi.oldLine, ho]; simp
    · simp only [e2]; rw [← hi.newLine, hn]; simp
    · simp only [e1]; rw [← hi.oldCtx, ho, ctxs_append, ctxs_append, ctxs_noSP _ hqo, ctxs_noSP _ (hb qo)]
    · simp only [e2]; rw [← hi.newCtx, hn, ctxs_append, ctxs_append, ctxs_noSP _ hqn, ctxs_noSP _ (hb qn)]
    · simp only [e1]
      intro l hl
      rcases List.mem_append.mp hl with h | h
      · exact hi.oldOps l (by rw [ho]; exact List.mem_append_left _ h)
      · obtain ⟨l', _, rfl⟩ := List.mem_map.mp h
        exact .inr (.inr rfl)
    · simp only [e2]
      intro l hl
      rcases List.mem_append.mp hl with h | h
      · exact hi.newOps l (by rw [hn]; exact List.mem_append_left _ h)
      · obtain ⟨l', _, rfl⟩ := List.mem_map.mp h
        exact .inr (.inr rfl)
    · exact hi.allIns
    · exact hi.allDel
    · exact ⟨po, _, e1, hlo, hb qo⟩
    · exact ⟨pn, _, e2, hln, hb qn⟩
  · exact hi

/-- the state in which a '+' or '-' line is appended -/
def ctxPre (s : CtxState) (op : UInt8) : CtxState :=
  if s.operation != SP then s.makeChange op else { s with operation := op }

theorem CtxInv.pre {c : List PatchLine} {s : CtxState} (hi : CtxInv c s) (op : UInt8) :
    CtxInv c (ctxPre s op) := by
  unfold ctxPre
  split
  · exact hi.makeChange op
  · exact ⟨hi.oldLine, hi.newLine, hi.oldCtx, hi.newCtx, hi.oldOps, hi.newOps, hi.allIns, hi.allDel, hi.oldSplit, hi.newSplit⟩

theorem ctxPre_operation (s : CtxState) (op : UInt8) : (ctxPre s op).operation = op ∨ (ctxPre s op).operation = BANG := by
  unfold ctxPre CtxState.makeChange
  split
  · split
    · exact .inr rfl
    · rename_i h; left; simpa using h
  · exact .inl rfl

theorem ctxStep_inv (h : Hunk) {c : List PatchLine} {s s' : CtxState} {pl : PatchLine} (hi : CtxInv c s)
    (hop : pl.op = SP ∨ pl.op = PLUS ∨ pl.op = MINUS) (hs : ctxStep h s pl = .ok s') :
    CtxInv (c ++ [pl]) s' := by
  unfold ctxStep at hs
  rcases hop with hop | hop | hop
  · rcases pl with ⟨op, line⟩
    simp only at hop; subst hop
    simp only [beq_self_eq_true, if_true] at hs
    split at hs
    · cases hs
    split at hs
    · cases hs
    cases hs
    constructor
    · simp [oldOf_append, hi.oldLine]; simp [oldOf, SP, PLUS]
    · simp [newOf_append, hi.newLine]; simp [newOf, SP, MINUS]
    · simp [ctxs_append, hi.oldCtx]
    · simp [ctxs_append, hi.newCtx]
    · intro l hl
      rcases List.mem_append.mp hl with h | h
      · exact hi.oldOps l h
      · simp at h; subst h; exact .inl rfl
    · intro l hl
      rcases List.mem_append.mp hl with h | h
      · exact hi.newOps l h
      · simp at h; subst h; exact .inl rfl
    · simp [hi.allIns, SP, MINUS]
    · simp [hi.allDel, SP, PLUS]
    · exact ⟨_, [], by simp, rfl, by simp⟩
    · exact ⟨_, [], by simp, rfl, by simp⟩
  · rcases pl with ⟨op, line⟩
    simp only at hop; subst hop
    simp only [PLUS_beq_SP, beq_self_eq_true, if_true, Bool.false_eq_true, if_false] at hs
    split at hs
    · cases hs
    cases hs
    have hp := hi.pre PLUS
    have hpo := ctxPre_operation s PLUS
    change CtxInv (c ++ [⟨PLUS, line⟩]) { ctxPre s PLUS with newLines := (ctxPre s PLUS).newLines ++ [⟨(ctxPre s PLUS).operation, line⟩], allDel := false }
    generalize ctxPre s PLUS = t at hp hpo
    have hne : t.operation ≠ SP := by rcases hpo with h | h <;> rw [h] <;> decide
    constructor
    · simp [oldOf_append, hp.oldLine]; simp [oldOf]
    · simp [newOf_append, hp.newLine]; simp [newOf, PLUS, MINUS]
    · simp [ctxs_append, hp.oldCtx]; simp [ctxs, PLUS, SP]
    · simp [ctxs_append, hp.newCtx]; (have : (t.operation == SP) = false := by simpa using hne); simp [ctxs, List.filter, this]
    · exact hp.oldOps
    · intro l hl
      rcases List.mem_append.mp hl with h | h
      · exact hp.newOps l h
      · simp at h; subst h
        rcases hpo with h | h
        · exact .inr (.inl h)
        · exact .inr (.inr h)
    · simp [hp.allIns, PLUS, MINUS]
    · simp
    · exact hp.oldSplit
    · obtain ⟨p, q, h1, h2, h3⟩ := hp.newSplit
      refine ⟨p, q ++ [⟨t.operation, line⟩], by simp [h1], h2, ?_⟩
      intro l hl
      rcases List.mem_append.mp hl with h | h
      · exact h3 l h
      · simp at h; subst h; exact hne
  · rcases pl with ⟨op, line⟩
    simp only at hop; subst hop
    simp only [MINUS_beq_SP, MINUS_beq_PLUS, beq_self_eq_true, if_true, Bool.false_eq_true, if_false] at hs
    split at hs
    · cases hs
    cases hs
    have hp := hi.pre MINUS
    have hpo := ctxPre_operation s MINUS
    change CtxInv (c ++ [⟨MINUS, line⟩]) { ctxPre s MINUS with oldLines := (ctxPre s MINUS).oldLines ++ [⟨(ctxPre s MINUS).operation, line⟩], allIns := false }
    generalize ctxPre s MINUS = t at hp hpo
    have hne : t.operation ≠ SP := by rcases hpo with h | h <;> rw [h] <;> decide
    constructor
    · simp [oldOf_append, hp.oldLine]; simp [oldOf, PLUS, MINUS]
    · simp [newOf_append, hp.newLine]; simp [newOf]
    · simp [ctxs_append, hp.oldCtx]; (have : (t.operation == SP) = false := by simpa using hne); simp [ctxs, List.filter, this]
    · simp [ctxs_append, hp.newCtx]; simp [ctxs, MINUS, SP]
    · intro l hl
      rcases List.mem_append.mp hl with h | h
      · exact hp.oldOps l h
      · simp at h; subst h
        rcases hpo with h | h
        · exact .inr (.inl h)
        · exact .inr (.inr h)
    · exact hp.newOps
    · simp
    · simp [hp.allDel, PLUS, MINUS]
    · obtain ⟨p, q, h1, h2, h3⟩ := hp.oldSplit
      refine ⟨p, q ++ [⟨t.operation, line⟩], by simp [h1], h2, ?_⟩
      intro l hl
      rcases List.mem_append.mp hl with h | h
      · exact h3 l h
      · simp at h; subst h; exact hne
    · exact hp.newSplit

theorem ctxFold_inv (h : Hunk) : ∀ (ls c : List PatchLine) (s s' : CtxState), CtxInv c s →
    (∀ pl ∈ ls, pl.op = SP ∨ pl.op = PLUS ∨ pl.op = MINUS) → ctxFold h s ls = .ok s' → CtxInv (c ++ ls) s' := by
  intro ls
  induction ls with
  | nil => intro c s s' hi _ hs; simp [ctxFold] at hs; subst hs; simpa using hi
  | cons pl rest ih =>
    intro c s s' hi hops hs
    rw [ctxFold] at hs
    split at hs
    · cases hs
    · rename_i s1 h1
      have := ih (c ++ [pl]) s1 s' (ctxStep_inv h hi (hops pl (by simp)) h1)
        (fun p hp => hops p (by simp [hp])) hs
      simpa using this

/-- the writer marks a changed group '!' in BOTH halves: as long as no '-' line was seen, the new half has no '!' line (and
    the operation is ' ' or '+'); as long as no '+' line was seen, the old half has no '!' line.  (What the parser's
    "a half may only be left out if the other half has no '!' line" test needs of written text.) -/
def CtxNoBang (c : List PatchLine) (s : CtxState) : Prop :=
  (c.all (·.op != MINUS) = true → (s.operation = SP ∨ s.operation = PLUS) ∧ ∀ l ∈ s.newLines, l.op ≠ BANG) ∧
  (c.all (·.op != PLUS) = true → (s.operation = SP ∨ s.operation = MINUS) ∧ ∀ l ∈ s.oldLines, l.op ≠ BANG)

theorem CtxNoBang.init : CtxNoBang [] {} := by
  constructor <;> intro _ <;> exact ⟨.inl rfl, by simp⟩

theorem ctxStep_noBang (h : Hunk) {c : List PatchLine} {s s' : CtxState} {pl : PatchLine} (hi : CtxNoBang c s)
    (hop : pl.op = SP ∨ pl.op = PLUS ∨ pl.op = MINUS) (hs : ctxStep h s pl = .ok s') :
    CtxNoBang (c ++ [pl]) s' := by
  unfold ctxStep at hs
  rcases hop with hop | hop | hop
  · rcases pl with ⟨op, line⟩
    simp only at hop; subst hop
    simp only [beq_self_eq_true, if_true] at hs
    split at hs
    · cases hs
    split at hs
    · cases hs
    cases hs
    constructor
    · intro hc
      have hc' : c.all (·.op != MINUS) = true := by
        simp only [List.all_append, Bool.and_eq_true] at hc; exact hc.1
      refine ⟨.inl rfl, ?_⟩
      intro l hl
      rcases List.mem_append.mp hl with hl | hl
      · exact (hi.1 hc').2 l hl
      · simp at hl; subst hl; simp only []; decide
    · intro hc
      have hc' : c.all (·.op != PLUS) = true := by
        simp only [List.all_append, Bool.and_eq_true] at hc; exact hc.1
      refine ⟨.inl rfl, ?_⟩
      intro l hl
      rcases List.mem_append.mp hl with hl | hl
      · exact (hi.2 hc').2 l hl
      · simp at hl; subst hl; simp only []; decide
  · rcases pl with ⟨op, line⟩
    simp only at hop; subst hop
    simp only [PLUS_beq_SP, beq_self_eq_true, if_true, Bool.false_eq_true, if_false] at hs
    split at hs
    · cases hs
    cases hs
    constructor
    · intro hc
      have hc' : c.all (·.op != MINUS) = true := by
        simp only [List.all_append, Bool.and_eq_true] at hc; exact hc.1
      obtain ⟨hop, hnb⟩ := hi.1 hc'
      have hpre : (if s.operation != SP then s.makeChange PLUS else { s with operation := PLUS })
          = { s with operation := PLUS } := by
        rcases hop with hop | hop
        · simp [hop]
        · have : s.makeChange PLUS = s := by simp [CtxState.makeChange, hop]
          rw [this]; simp only [hop]; rcases s with ⟨⟩; simp at hop ⊢; simp [hop, PLUS, SP]
      rw [hpre]
      refine ⟨.inr rfl, ?_⟩
      intro l hl
      rcases List.mem_append.mp hl with hl | hl
      · exact hnb l hl
      · simp at hl; subst hl; simp only []; decide
    · intro hc
      simp [List.all_append] at hc
  · rcases pl with ⟨op, line⟩
    simp only at hop; subst hop
    simp only [MINUS_beq_SP, MINUS_beq_PLUS, beq_self_eq_true, if_true, Bool.false_eq_true, if_false] at hs
    split at hs
    · cases hs
    cases hs
    constructor
    · intro hc
      simp [List.all_append] at hc
    · intro hc
      have hc' : c.all (·.op != PLUS) = true := by
        simp only [List.all_append, Bool.and_eq_true] at hc; exact hc.1
      obtain ⟨hop, hnb⟩ := hi.2 hc'
      have hpre : (if s.operation != SP then s.makeChange MINUS else { s with operation := MINUS })
          = { s with operation := MINUS } := by
        rcases hop with hop | hop
        · simp [hop]
        · have : s.makeChange MINUS = s := by simp [CtxState.makeChange, hop]
          rw [this]; simp only [hop]; rcases s with ⟨⟩; simp at hop ⊢; simp [hop, MINUS, SP]
      rw [hpre]
      refine ⟨.inr rfl, ?_⟩
      intro l hl
      rcases List.mem_append.mp hl with hl | hl
      · exact hnb l hl
      · simp at hl; subst hl; simp only []; decide

theorem ctxFold_noBang (h : Hunk) : ∀ (ls c : List PatchLine) (s s' : CtxState), CtxNoBang c s →
    (∀ pl ∈ ls, pl.op = SP ∨ pl.op = PLUS ∨ pl.op = MINUS) → ctxFold h s ls = .ok s' → CtxNoBang (c ++ ls) s' := by
  intro ls
  induction ls with
  | nil => intro c s s' hi _ hs; simp [ctxFold] at hs; subst hs; simpa using hi
  | cons pl rest ih =>
    intro c s s' hi hops hs
    rw [ctxFold] at hs
    split at hs
    · cases hs
    · rename_i s1 h1
      have := ih (c ++ [pl]) s1 s' (ctxStep_noBang h hi (hops pl (by simp)) h1)
        (fun p hp => hops p (by simp [hp])) hs
      simpa using this

/-- the parser's "a half left out needs the other half without '!'" test, as a proposition -/
def HalfGuardOff (ol nl : List PatchLine) : Prop :=
  ((nl.isEmpty && ol.any (·.op == BANG)) || (ol.isEmpty && nl.any (·.op == BANG))) = false

theorem halfGuardOff_of_ne_nil {ol nl : List PatchLine} (ho : ol ≠ []) (hn : nl ≠ []) : HalfGuardOff ol nl := by
  cases ol with
  | nil => exact absurd rfl ho
  | cons _ _ =>
    cases nl with
    | nil => exact absurd rfl hn
    | cons _ _ => simp [HalfGuardOff]

theorem any_bang_false {ls : List PatchLine} (h : ∀ l ∈ ls, l.op ≠ BANG) : ls.any (·.op == BANG) = false := by
  rw [List.any_eq_false]
  intro l hl; simpa using h l hl

theorem halfGuardOff_left {nl : List PatchLine} (h : ∀ l ∈ nl, l.op ≠ BANG) : HalfGuardOff [] nl := by
  simp [HalfGuardOff, any_bang_false h]

theorem halfGuardOff_right {ol : List PatchLine} (h : ∀ l ∈ ol, l.op ≠ BANG) : HalfGuardOff ol [] := by
  simp [HalfGuardOff, any_bang_false h]

/-! ### the parser on a stream of LF-terminated lines -/

/-- a parser positioned at `rest`, no flag set -/
def mkPar (rest : List Line) (n : Nat) : Parser := { s := { rest := rest }, lineNo := n }

/-- the parser after `get_line` failed at the end of input -/
def eofPar (n : Nat) : Parser := { s := { rest := [], eof := true }, lineNo := n }

theorem getLine_lf (c : Bytes) (r : List Line) (n : Nat) :
    (mkPar (lfLine c :: r) n).getLine = (some (lfLine c), mkPar r (n + 1)) := by
  simp [mkPar, Parser.getLine, PStream.getLine, lfLine]

/-- a line that has a terminator is handed out as it is -/
theorem getLine_plain (l : Line) (hl : l.newline ≠ .none) (r : List Line) (n : Nat) :
    (mkPar (l :: r) n).getLine = (some l, mkPar r (n + 1)) := by
  simp [mkPar, Parser.getLine, PStream.getLine, hl]

theorem getLine_nil (n : Nat) : (mkPar [] n).getLine = (none, eofPar n) := by
  simp [mkPar, eofPar, Parser.getLine, PStream.getLine]

theorem getLine_of_rest_nil (p : Parser) (h : p.s.rest = []) : p.getLine.1 = none := by
  unfold Parser.getLine PStream.getLine
  split <;> rename_i heq
  · rfl
  · exfalso
    split at heq
    · cases heq
    · split at heq
      · cases heq
      · rw [h] at heq; cases heq

theorem peek_cons (c : UInt8) (cs : Bytes) (r : List Line) (n : Nat) :
    (mkPar (lfLine (c :: cs) :: r) n).s.peek = c := by
  simp [mkPar, PStream.peek, lfLine]

theorem peek_nil (n : Nat) : (mkPar [] n).s.peek = 255 := by
  simp [mkPar, PStream.peek]

/-! ### prefix / suffix tests -/

theorem startsWith_old (m : Bytes) : startsWith ([42, 42, 42, 32] ++ m) "*** " = true := by
  unfold startsWith; rw [str_old4]; simp [List.isPrefixOf]

theorem endsWith_old (m : Bytes) : endsWith (m ++ [32, 42, 42, 42, 42]) " ****" = true := by
  unfold endsWith; rw [str_old5]; simp [List.isPrefixOf]

theorem startsWith_new (m : Bytes) : startsWith ([45, 45, 45, 32] ++ m) "--- " = true := by
  unfold startsWith; rw [str_new4]; simp [List.isPrefixOf]

theorem endsWith_new (m : Bytes) : endsWith (m ++ [32, 45, 45, 45, 45]) " ----" = true := by
  unfold endsWith; rw [str_new5]; simp [List.isPrefixOf]

theorem startsWith_half_new (op : UInt8) (c : Bytes) : startsWith (op :: SP :: c) "--- " = false := by
  unfold startsWith; rw [str_new4]; simp [List.isPrefixOf, SP]

theorem startsWith_half_stars10 (op : UInt8) (c : Bytes) : startsWith (op :: SP :: c) "**********" = false := by
  unfold startsWith; rw [str_stars10]; simp [List.isPrefixOf, SP]

theorem startsWith_stars_old : startsWith starsText "*** " = false := by
  unfold startsWith; rw [str_old4]; decide

theorem startsWith_stars_stars10 : startsWith starsText "**********" = true := by
  unfold startsWith; rw [str_stars10]; decide

theorem startsWith_stars_stars15 : startsWith starsText "***************" = true := by
  unfold startsWith; rw [str_stars15]; decide

theorem startsWith_nil_stars15 : startsWith [] "***************" = false := by
  unfold startsWith; rw [str_stars15]; decide

theorem startsWith_nil_old : startsWith [] "*** " = false := by
  unfold startsWith; rw [str_old4]; decide

theorem startsWith_nil_new : startsWith [] "--- " = false := by
  unfold startsWith; rw [str_new4]; decide

theorem ctxRangeText_mid (a m b : Bytes) (ha : a.length = 4) (hb : b.length = 5) (hm : m ≠ []) :
    ctxRangeText (a ++ m ++ b) = m := by
  unfold ctxRangeText
  have : 0 < m.length := List.length_pos_iff.mpr hm
  rw [if_neg (by simp; omega)]
  rw [List.append_assoc, List.drop_append_of_le_length (by omega), ← ha, List.drop_length, List.nil_append]
  have : (a ++ (m ++ b)).length - 9 = m.length := by simp; omega
  rw [this, List.take_left']
  rfl

theorem rangeMid_ne_nil (r : Range) : rangeMid r ≠ [] := by
  unfold rangeMid
  intro h
  exact intDigits_ne_nil _ (List.append_eq_nil_iff.mp h).1

theorem ctxRangeText_old (r : Range) : ctxRangeText (oldRangeText r) = rangeMid r :=
  ctxRangeText_mid _ _ _ rfl rfl (rangeMid_ne_nil r)

theorem ctxRangeText_new (r : Range) : ctxRangeText (newRangeText r) = rangeMid r :=
  ctxRangeText_mid _ _ _ rfl rfl (rangeMid_ne_nil r)

/-! ### ranges -/

/-- printing a line number and reading it back (proved in `Lemmas/Unified`; taken as a hypothesis here) -/
def NumberRoundtrip : Prop :=
  ∀ (n : Nat), (n : Int) ≤ i64Max / 4 → ∀ (rest : Bytes) (cur : Int),
    (∀ c, rest.head? = some c → isDigit c = false) →
    consumeLineNumber (intDigits (n : Int) ++ rest) cur = (true, (n : Int), rest)

theorem number_roundtrip_int (NR : NumberRoundtrip) (i : Int) (h0 : 0 ≤ i) (h1 : i ≤ i64Max / 4) (rest : Bytes) (cur : Int)
    (hrest : ∀ c, rest.head? = some c → isDigit c = false) :
    consumeLineNumber (intDigits i ++ rest) cur = (true, i, rest) := by
  have := NR i.toNat (by omega) rest cur hrest
  rwa [Int.toNat_of_nonneg h0] at this

/-- a range the writer can print and the parser can read back -/
def RangeOK (r : Range) : Prop := 0 ≤ r.start ∧ 0 ≤ r.count ∧ r.start + r.count ≤ i64Max / 4

theorem parseContextRange_mid (NR : NumberRoundtrip) (r : Range) (hr : RangeOK r) (a b : Int) :
    parseContextRange a b (rangeMid r) = (true, r.start, rangeEnd r) := by
  obtain ⟨h0, h1, h2⟩ := hr
  unfold parseContextRange rangeMid rangeEnd
  by_cases hc : r.count > 1
  · simp only [hc, if_true]
    rw [number_roundtrip_int NR r.start h0 (by omega) _ a (by intro c h; simp at h; subst h; decide)]
    simp only [Bool.not_true, Bool.false_eq_true, if_false]
    have : consumeStr [44] (44 :: intDigits (r.start + r.count - 1)) = some (intDigits (r.start + r.count - 1)) := by
      simp [consumeStr, List.isPrefixOf]
    rw [this]
    simp only
    have := number_roundtrip_int NR (r.start + r.count - 1) (by omega) (by omega) [] b (by simp)
    rw [List.append_nil] at this
    rw [this]
  · simp only [hc, if_false, List.append_nil]
    have := number_roundtrip_int NR r.start h0 (by omega) [] a (by simp)
    rw [List.append_nil] at this
    rw [this]
    simp [consumeStr, List.isPrefixOf]

/-! ### the stages of `parseContextHunk` -/

theorem skip_old (NR : NumberRoundtrip) (r : Range) (hr : RangeOK r) (fuel : Nat) (rest : List Line) (n : Nat) (a b : Int) :
    ctxSkipToOldRange (fuel + 1) (mkPar (lfLine (oldRangeText r) :: rest) n) a b
      = .ok (mkPar rest (n + 1), r.start, rangeEnd r) := by
  rw [ctxSkipToOldRange, getLine_lf]
  simp only
  have h1 : startsWith (lfLine (oldRangeText r)).content "*** " = true := by
    simp only [lfLine, oldRangeText, List.append_assoc]; exact startsWith_old _
  have h2 : endsWith (lfLine (oldRangeText r)).content " ****" = true := by
    simp only [lfLine, oldRangeText]; exact endsWith_old _
  rw [h1, h2]
  simp only [Bool.and_self, if_true]
  have : (lfLine (oldRangeText r)).content = oldRangeText r := rfl
  rw [this, ctxRangeText_old, parseContextRange_mid NR r hr]
  simp only [if_true]

theorem skip_stars (fuel : Nat) (rest : List Line) (n : Nat) (a b : Int) :
    ctxSkipToOldRange (fuel + 1) (mkPar (lfLine starsText :: rest) n) a b
      = ctxSkipToOldRange fuel (mkPar rest (n + 1)) a b := by
  rw [ctxSkipToOldRange, getLine_lf]
  simp only
  have h1 : startsWith (lfLine starsText).content "*** " = false := startsWith_stars_old
  rw [h1]
  simp

theorem parseNewRange_new (NR : NumberRoundtrip) (r : Range) (hr : RangeOK r) (a b : Int) :
    ctxParseNewRange (newRangeText r) a b = .ok (some (r.start, rangeEnd r)) := by
  unfold ctxParseNewRange
  have h1 : startsWith (newRangeText r) "--- " = true := by
    simp only [newRangeText, List.append_assoc]; exact startsWith_new _
  have h2 : endsWith (newRangeText r) " ----" = true := by
    simp only [newRangeText]; exact endsWith_new _
  rw [h1, h2, ctxRangeText_new, parseContextRange_mid NR r hr]
  simp

theorem parseNewRange_half (l : PatchLine) (a b : Int) : ctxParseNewRange (halfText l) a b = .ok none := by
  unfold ctxParseNewRange halfText
  rw [startsWith_half_new]; simp

/-- the operation bytes of a context half -/
def HalfOp (op : UInt8) : Prop := op = SP ∨ op = PLUS ∨ op = MINUS ∨ op = BANG

theorem appendLine_half (acc : List PatchLine) (l : PatchLine) (hop : HalfOp l.op) :
    ctxAppendLine acc (halfLine l).content (halfLine l).newline = .ok (acc ++ [wireOf l]) := by
  unfold ctxAppendLine halfLine halfText
  simp only
  have h1 : (SP == MINUS) = false := by decide
  rw [h1]
  have h2 : ((wireOf l).op != SP && (wireOf l).op != PLUS && (wireOf l).op != MINUS && (wireOf l).op != BANG) = false := by
    show (l.op != SP && l.op != PLUS && l.op != MINUS && l.op != BANG) = false
    rcases hop with h | h | h | h <;> rw [h] <;> decide
  rw [h2]
  simp

theorem appendContent_half (ts : List PatchLine) (hops : ∀ l ∈ ts, HalfOp l.op) :
    ∀ (fuel : Nat) (acc : List PatchLine) (tail : List Line) (n : Nat) (startL endL : Int),
      ts.length < fuel → startL + (acc.length : Int) + (ts.length : Int) = endL + 1 →
      ctxAppendContent fuel (mkPar (ts.map halfLine ++ tail) n) acc startL endL
        = .ok (acc ++ ts.map wireOf, mkPar tail (n + ts.length)) := by
  induction ts with
  | nil =>
    intro fuel acc tail n startL endL hf he
    cases fuel with
    | zero => simp at hf
    | succ fuel =>
      rw [ctxAppendContent, if_neg (by simp at he; omega)]
      simp
  | cons t ts ih =>
    intro fuel acc tail n startL endL hf he
    cases fuel with
    | zero => simp at hf
    | succ fuel =>
      simp only [List.length_cons] at he hf
      rw [ctxAppendContent, if_pos (by omega)]
      simp only [List.map_cons, List.cons_append]
      rw [getLine_plain _ (halfLine_newline_ne_none _)]
      simp only
      rw [appendLine_half acc t (hops t (by simp))]
      simp only
      rw [ih (fun l hl => hops l (by simp [hl])) fuel (acc ++ [wireOf t]) tail (n + 1) startL endL (by omega)
        (by simp only [List.length_append, List.length_singleton]; omega)]
      simp [Nat.add_assoc, Nat.add_comm 1]

theorem BACKSLASH_eq : BACKSLASH = 92 := rfl

/-- what follows a half does not start with a backslash -/
def NoBackslash (tail : List Line) : Prop := ∀ n, (mkPar tail n).s.peek ≠ BACKSLASH

theorem noBackslash_nil : NoBackslash [] := by
  intro n; rw [peek_nil]; decide

theorem noBackslash_cons (c : UInt8) (cs : Bytes) (r : List Line) (h : c ≠ 92) : NoBackslash (lfLine (c :: cs) :: r) := by
  intro n; rw [peek_cons]; exact h

theorem checkNoNewline_marker (ls : List PatchLine) (hne : ls ≠ []) (tail : List Line) (n : Nat) :
    ctxCheckNoNewline (mkPar (lfLine markerText :: tail) n) ls = (markLastNone ls, mkPar tail (n + 1)) := by
  unfold ctxCheckNoNewline
  have : (mkPar (lfLine markerText :: tail) n).s.peek = BACKSLASH := by
    unfold markerText; rw [peek_cons]; rfl
  rw [if_pos ⟨by simpa using hne, this⟩, getLine_lf]

theorem checkNoNewline_none (ls : List PatchLine) (tail : List Line) (h : NoBackslash tail) (n : Nat) :
    ctxCheckNoNewline (mkPar tail n) ls = (ls, mkPar tail n) := by
  unfold ctxCheckNoNewline
  rw [if_neg (fun hc => h n hc.2)]

/-- the lines of a half as the parser reads them back -/
def readBack (ts : List PatchLine) : List PatchLine :=
  if lastNone ts then markLastNone (ts.map wireOf) else ts.map wireOf

def halfLines (ts : List PatchLine) : List Line := halfTexts ts

/-- reading a whole half: its content lines (the first `pre` already read), then the marker if there is one -/
theorem read_half (ts : List PatchLine) (hops : ∀ l ∈ ts, HalfOp l.op) (pre : List PatchLine) (mk : Bool)
    (fuel : Nat) (tail : List Line) (htail : NoBackslash tail) (n : Nat) (startL endL : Int)
    (hf : ts.length < fuel) (he : startL + (pre.length : Int) + (ts.length : Int) = endL + 1)
    (hne : pre ++ ts ≠ []) :
    ∃ ls par n',
      ctxAppendContent fuel
        (mkPar (ts.map halfLine ++ ((if mk then [lfLine markerText] else []) ++ tail)) n)
        (pre.map wireOf) startL endL = .ok (ls, par) ∧
      ctxCheckNoNewline par ls =
        (if mk then markLastNone ((pre ++ ts).map wireOf) else (pre ++ ts).map wireOf, mkPar tail n') := by
  rw [appendContent_half ts hops fuel (pre.map wireOf) _ n startL endL hf (by simpa using he)]
  cases mk with
  | true =>
    refine ⟨_, _, n + ts.length + 1, rfl, ?_⟩
    simp only [← List.map_append, if_true, List.cons_append, List.nil_append]
    rw [checkNoNewline_marker _ (by simpa using hne)]
  | false =>
    refine ⟨_, _, n + ts.length, rfl, ?_⟩
    simp only [← List.map_append, Bool.false_eq_true, if_false, List.nil_append]
    rw [checkNoNewline_none _ _ htail]

theorem halfLines_eq (ts : List PatchLine) (tail : List Line) :
    halfLines ts ++ tail =
      ts.map halfLine ++ ((if lastNone ts then [lfLine markerText] else []) ++ tail) := by
  unfold halfLines halfTexts
  rw [List.append_assoc]

theorem halfLines_nil : halfLines [] = [] := rfl

theorem hunkLines_eq (O : List PatchLine) (oR : Range) (N : List PatchLine) (nR : Range) (tail : List Line) :
    halvesTexts O oR N nR ++ tail =
      lfLine (oldRangeText oR) :: (halfLines O ++ lfLine (newRangeText nR) :: (halfLines N ++ tail)) := by
  simp [halvesTexts, halfLines]

theorem skip_pre (NR : NumberRoundtrip) (pre : List Line) (hpre : pre = [] ∨ pre = [lfLine starsText])
    (r : Range) (hr : RangeOK r) (fuel : Nat) (rest : List Line) (n : Nat) (a b : Int) :
    ∃ n', ctxSkipToOldRange (fuel + 2) (mkPar (pre ++ lfLine (oldRangeText r) :: rest) n) a b
      = .ok (mkPar rest n', r.start, rangeEnd r) := by
  rcases hpre with rfl | rfl
  · exact ⟨_, skip_old NR r hr (fuel + 1) rest n a b⟩
  · refine ⟨n + 1 + 1, ?_⟩
    rw [List.singleton_append, skip_stars, skip_old NR r hr]

/-! ### `parseContextHunk` by stages -/

theorem parseHunk_stages_oldOmitted (par par1 par2 par3 par4 : Parser) (os oe ns ne : Int) (l1 : Line)
    (nls nls' : List PatchLine)
    (h1 : ctxSkipToOldRange (par.s.rest.length + 2) par 0 0 = .ok (par1, os, oe))
    (h2 : par1.getLine = (some l1, par2))
    (h3 : ctxParseNewRange l1.content 0 0 = .ok (some (ns, ne)))
    (h4 : ctxAppendContent (par.s.rest.length + 2) par2 [] ns ne = .ok (nls, par3))
    (h5 : ctxCheckNoNewline par3 nls = (nls', par4)) :
    parseContextHunk par = .ok ([], os, nls', ns, par4) := by
  unfold parseContextHunk
  simp only [h1, h2, h3, h4, h5]

theorem parseHunk_stages_both (par par1 par2 par3 par4 par5 par6 par7 par8 : Parser) (os oe ns ne : Int) (l1 l2 l3 : Line)
    (old1 ols ols' new1 nls nls' : List PatchLine)
    (h1 : ctxSkipToOldRange (par.s.rest.length + 2) par 0 0 = .ok (par1, os, oe))
    (h2 : par1.getLine = (some l1, par2))
    (h3 : ctxParseNewRange l1.content 0 0 = .ok none)
    (h4 : ctxAppendLine [] l1.content l1.newline = .ok old1)
    (h5 : ctxAppendContent (par.s.rest.length + 2) par2 old1 os oe = .ok (ols, par3))
    (h6 : ctxCheckNoNewline par3 ols = (ols', par4))
    (h7 : par4.getLine = (some l2, par5))
    (h8 : ctxParseNewRange l2.content 0 0 = .ok (some (ns, ne)))
    (h9 : par5.getLine = (some l3, par6))
    (h11 : startsWith l3.content "**********" = false)
    (h11' : isToFileLine l3.content = true)
    (h12 : ctxAppendLine [] l3.content l3.newline = .ok new1)
    (h13 : ctxAppendContent (par.s.rest.length + 2) par6 new1 ns ne = .ok (nls, par7))
    (h14 : ctxCheckNoNewline par7 nls = (nls', par8)) :
    parseContextHunk par = .ok (ols', os, nls', ns, par8) := by
  unfold parseContextHunk
  simp only [h1, h2, h3, h4, h5, h6, h7, h8, h9, h11, h11', h12, h13, h14, Option.isNone_some, Bool.not_true,
    Bool.false_eq_true, if_false]

theorem parseHunk_stages_newOmitted (par par1 par2 par3 par4 par5 par6 : Parser) (os oe ns ne : Int) (l1 l2 : Line)
    (l3o : Option Line) (old1 ols ols' : List PatchLine)
    (h1 : ctxSkipToOldRange (par.s.rest.length + 2) par 0 0 = .ok (par1, os, oe))
    (h2 : par1.getLine = (some l1, par2))
    (h3 : ctxParseNewRange l1.content 0 0 = .ok none)
    (h4 : ctxAppendLine [] l1.content l1.newline = .ok old1)
    (h5 : ctxAppendContent (par.s.rest.length + 2) par2 old1 os oe = .ok (ols, par3))
    (h6 : ctxCheckNoNewline par3 ols = (ols', par4))
    (h7 : par4.getLine = (some l2, par5))
    (h8 : ctxParseNewRange l2.content 0 0 = .ok (some (ns, ne)))
    (h9 : par5.getLine = (l3o, par6))
    (h10 : l3o = none ∨ ∃ l3, l3o = some l3 ∧ startsWith l3.content "**********" = true) :
    parseContextHunk par = .ok (ols', os, [], ns, par6) := by
  unfold parseContextHunk
  simp only [h1, h2, h3, h4, h5, h6, h7, h8, h9]
  rcases h10 with rfl | ⟨l3, rfl, h⟩
  · simp
  · simp [h]

theorem rangeEnd_eq (r : Range) (k : Nat) (hk : 1 ≤ k) (hc : r.count = (k : Int)) :
    r.start + (k : Int) = rangeEnd r + 1 := by
  unfold rangeEnd; split <;> omega

theorem noBackslash_new (r : Range) (rest : List Line) : NoBackslash (lfLine (newRangeText r) :: rest) :=
  noBackslash_cons 45 _ rest (by decide)

theorem noBackslash_stars (rest : List Line) : NoBackslash (lfLine starsText :: rest) :=
  noBackslash_cons 42 _ rest (by decide)

/-- old half omitted -/
theorem parseHunk_oldOmitted (NR : NumberRoundtrip) (pre : List Line) (hpre : pre = [] ∨ pre = [lfLine starsText])
    (N : List PatchLine) (oR nR : Range) (hoR : RangeOK oR) (hnR : RangeOK nR)
    (hnc : nR.count = (N.length : Int)) (hN : N ≠ []) (hnops : ∀ l ∈ N, HalfOp l.op)
    (tail : List Line) (htail : NoBackslash tail) (n : Nat) :
    ∃ n', parseContextHunk (mkPar (pre ++ (halvesTexts [] oR N nR ++ tail)) n)
      = .ok ([], oR.start, readBack N, nR.start, mkPar tail n') := by
  rw [hunkLines_eq, halfLines_nil, List.nil_append, halfLines_eq]
  generalize hX : N.map halfLine ++ ((if lastNone N then [lfLine markerText] else []) ++ tail) = X
  obtain ⟨n1, h1⟩ := skip_pre NR pre hpre oR hoR (pre ++ lfLine (oldRangeText oR) :: lfLine (newRangeText nR) :: X).length
    (lfLine (newRangeText nR) :: X) n 0 0
  have h2 := getLine_lf (newRangeText nR) X n1
  have h3 := parseNewRange_new NR nR hnR 0 0
  have hlen : 1 ≤ N.length := List.length_pos_iff.mpr hN
  subst hX
  obtain ⟨ls, par3, n', h4, h5⟩ := read_half N hnops [] (lastNone N)
    ((pre ++ lfLine (oldRangeText oR) :: lfLine (newRangeText nR) ::
      (N.map halfLine ++ ((if lastNone N then [lfLine markerText] else []) ++ tail))).length + 2)
    tail htail (n1 + 1) nR.start (rangeEnd nR)
    (by simp; omega) (by simpa using rangeEnd_eq nR N.length hlen hnc) (by simpa using hN)
  exact ⟨n', parseHunk_stages_oldOmitted _ _ _ _ _ _ _ _ _ _ _ _ h1 h2 h3 h4 h5⟩

theorem halfLines_cons (t : PatchLine) (ts : List PatchLine) (tail : List Line) :
    halfLines (t :: ts) ++ tail =
      halfLine t :: (ts.map halfLine
        ++ ((if lastNone (t :: ts) then [lfLine markerText] else []) ++ tail)) := by
  rw [halfLines_eq]; rfl

/-- both halves present -/
theorem parseHunk_both (NR : NumberRoundtrip) (pre : List Line) (hpre : pre = [] ∨ pre = [lfLine starsText])
    (O N : List PatchLine) (oR nR : Range) (hoR : RangeOK oR) (hnR : RangeOK nR)
    (hoc : oR.count = (O.length : Int)) (hnc : nR.count = (N.length : Int)) (hO : O ≠ []) (hN : N ≠ [])
    (hoops : ∀ l ∈ O, HalfOp l.op) (hnops : ∀ l ∈ N, HalfOp l.op) (hnnm : ∀ l ∈ N, l.op ≠ MINUS)
    (tail : List Line) (htail : NoBackslash tail) (n : Nat) :
    ∃ n', parseContextHunk (mkPar (pre ++ (halvesTexts O oR N nR ++ tail)) n)
      = .ok (readBack O, oR.start, readBack N, nR.start, mkPar tail n') := by
  obtain ⟨o1, O', rfl⟩ := List.exists_cons_of_ne_nil hO
  obtain ⟨n1, N', rfl⟩ := List.exists_cons_of_ne_nil hN
  rw [hunkLines_eq, halfLines_cons n1 N', halfLines_cons o1 O']
  generalize hY : N'.map halfLine ++ ((if lastNone (n1 :: N') then [lfLine markerText] else []) ++ tail) = Y
  generalize hX : O'.map halfLine ++ ((if lastNone (o1 :: O') then [lfLine markerText] else [])
    ++ lfLine (newRangeText nR) :: halfLine n1 :: Y) = X
  generalize hF : (mkPar (pre ++ lfLine (oldRangeText oR) :: halfLine o1 :: X) n).s.rest.length = F
  have hF' : (pre ++ lfLine (oldRangeText oR) :: halfLine o1 :: X).length = F := hF
  obtain ⟨k1, h1⟩ := skip_pre NR pre hpre oR hoR F (halfLine o1 :: X) n 0 0
  have h2 := getLine_plain (halfLine o1) (halfLine_newline_ne_none _) X k1
  have h3 := parseNewRange_half (wireOf o1) 0 0
  have h4 := appendLine_half [] o1 (hoops o1 (by simp))
  subst hX
  obtain ⟨ols, par3, k2, h5, h6⟩ := read_half O' (fun l hl => hoops l (by simp [hl])) [o1] (lastNone (o1 :: O'))
    (F + 2) _ (noBackslash_new nR (halfLine n1 :: Y)) (k1 + 1) oR.start (rangeEnd oR)
    (by rw [← hF']; simp; omega)
    (by have := rangeEnd_eq oR (O'.length + 1) (by omega) (by simpa using hoc); simp only [List.length_singleton]; omega)
    (by simp)
  have h7 := getLine_lf (newRangeText nR) (halfLine n1 :: Y) k2
  have h8 := parseNewRange_new NR nR hnR 0 0
  have h9 := getLine_plain (halfLine n1) (halfLine_newline_ne_none _) Y (k2 + 1)
  have h11 := startsWith_half_stars10 n1.op (wireOf n1).line.content
  have h11' : isToFileLine (halfLine n1).content = true := by
    have hm := hnnm n1 (by simp)
    show ((n1.op == SP || n1.op == PLUS || n1.op == BANG) && SP == SP) = true
    rcases hnops n1 (by simp) with h | h | h | h
    · rw [h]; decide
    · rw [h]; decide
    · exact absurd h hm
    · rw [h]; decide
  have h12 := appendLine_half [] n1 (hnops n1 (by simp))
  subst hY
  obtain ⟨nls, par7, k3, h13, h14⟩ := read_half N' (fun l hl => hnops l (by simp [hl])) [n1] (lastNone (n1 :: N'))
    (F + 2) tail htail (k2 + 1 + 1) nR.start (rangeEnd nR)
    (by rw [← hF']; simp; omega)
    (by have := rangeEnd_eq nR (N'.length + 1) (by omega) (by simpa using hnc); simp only [List.length_singleton]; omega)
    (by simp)
  refine ⟨k3, ?_⟩
  have := parseHunk_stages_both (mkPar (pre ++ lfLine (oldRangeText oR) :: halfLine o1 :: _) n)
    _ _ _ _ _ _ _ _ _ _ _ _ _ _ _ _ _ _ _ _ _ (hF.symm ▸ h1) h2 h3 h4 (hF.symm ▸ h5) h6 h7 h8 h9 h11 h11' h12 (hF.symm ▸ h13) h14
  exact this

/-- new half omitted: the line after the new range is consumed (the separator) or the input ends -/
theorem parseHunk_newOmitted (NR : NumberRoundtrip) (pre : List Line) (hpre : pre = [] ∨ pre = [lfLine starsText])
    (O : List PatchLine) (oR nR : Range) (hoR : RangeOK oR) (hnR : RangeOK nR)
    (hoc : oR.count = (O.length : Int)) (hO : O ≠ [])
    (hoops : ∀ l ∈ O, HalfOp l.op)
    (tail : List Line) (htail : tail = [] ∨ ∃ more, tail = lfLine starsText :: more) (n : Nat) :
    ∃ par', parseContextHunk (mkPar (pre ++ (halvesTexts O oR [] nR ++ tail)) n)
        = .ok (readBack O, oR.start, [], nR.start, par') ∧
      ((tail = [] ∧ par'.s.rest = []) ∨ ∃ more n', tail = lfLine starsText :: more ∧ par' = mkPar more n') := by
  obtain ⟨o1, O', rfl⟩ := List.exists_cons_of_ne_nil hO
  rw [hunkLines_eq, halfLines_nil, List.nil_append, halfLines_cons o1 O']
  generalize hX : O'.map halfLine ++ ((if lastNone (o1 :: O') then [lfLine markerText] else [])
    ++ lfLine (newRangeText nR) :: tail) = X
  generalize hF : (mkPar (pre ++ lfLine (oldRangeText oR) :: halfLine o1 :: X) n).s.rest.length = F
  have hF' : (pre ++ lfLine (oldRangeText oR) :: halfLine o1 :: X).length = F := hF
  obtain ⟨k1, h1⟩ := skip_pre NR pre hpre oR hoR F (halfLine o1 :: X) n 0 0
  have h2 := getLine_plain (halfLine o1) (halfLine_newline_ne_none _) X k1
  have h3 := parseNewRange_half (wireOf o1) 0 0
  have h4 := appendLine_half [] o1 (hoops o1 (by simp))
  subst hX
  obtain ⟨ols, par3, k2, h5, h6⟩ := read_half O' (fun l hl => hoops l (by simp [hl])) [o1] (lastNone (o1 :: O'))
    (F + 2) _ (noBackslash_new nR tail) (k1 + 1) oR.start (rangeEnd oR)
    (by rw [← hF']; simp; omega)
    (by have := rangeEnd_eq oR (O'.length + 1) (by omega) (by simpa using hoc); simp only [List.length_singleton]; omega)
    (by simp)
  have h7 := getLine_lf (newRangeText nR) tail k2
  have h8 := parseNewRange_new NR nR hnR 0 0
  rcases htail with rfl | ⟨more, rfl⟩
  · have h9 := getLine_nil (k2 + 1)
    refine ⟨eofPar (k2 + 1), ?_, .inl ⟨rfl, rfl⟩⟩
    exact parseHunk_stages_newOmitted (mkPar (pre ++ lfLine (oldRangeText oR) :: halfLine o1 :: _) n)
      _ _ _ _ _ _ _ _ _ _ _ _ _ _ _ _ (hF.symm ▸ h1) h2 h3 h4 (hF.symm ▸ h5) h6 h7 h8 h9 (.inl rfl)
  · have h9 := getLine_lf starsText more (k2 + 1)
    refine ⟨mkPar more (k2 + 1 + 1), ?_, .inr ⟨more, _, rfl, rfl⟩⟩
    exact parseHunk_stages_newOmitted (mkPar (pre ++ lfLine (oldRangeText oR) :: halfLine o1 :: _) n)
      _ _ _ _ _ _ _ _ _ _ _ _ _ _ _ _ (hF.symm ▸ h1) h2 h3 h4 (hF.symm ▸ h5) h6 h7 h8 h9
      (.inr ⟨_, rfl, startsWith_stars_stars10⟩)

/-! ### `hunkFromContextParts` -/

/-- `h'` is `h` with lines added whose old side is `ol` and whose new side is `nl` -/
def Added (h h' : Hunk) (ol nl : List Line) : Prop :=
  oldOf h'.lines = oldOf h.lines ++ ol ∧ newOf h'.lines = newOf h.lines ++ nl ∧
  h'.old = ⟨h.old.start, h.old.count + ol.length⟩ ∧ h'.new = ⟨h.new.start, h.new.count + nl.length⟩

theorem Added.refl (h : Hunk) : Added h h [] [] := by
  simp [Added]

theorem Added.trans {h h1 h2 : Hunk} {a b a' b' : List Line} (x : Added h h1 a b) (y : Added h1 h2 a' b') :
    Added h h2 (a ++ a') (b ++ b') := by
  obtain ⟨x1, x2, x3, x4⟩ := x
  obtain ⟨y1, y2, y3, y4⟩ := y
  refine ⟨by rw [y1, x1, List.append_assoc], by rw [y2, x2, List.append_assoc], ?_, ?_⟩
  · rw [y3, x3]; simp only [List.length_append, Range.mk.injEq, true_and]; omega
  · rw [y4, x4]; simp only [List.length_append, Range.mk.injEq, true_and]; omega

theorem Added.old (h : Hunk) (l : Line) :
    Added h { h with lines := h.lines ++ [⟨MINUS, l⟩], old := { h.old with count := h.old.count + 1 } } [l] [] := by
  refine ⟨?_, ?_, ?_, ?_⟩
  · simp [oldOf_append]; simp [oldOf, MINUS, PLUS]
  · simp [newOf_append]; simp [newOf]
  · simp
  · simp

theorem Added.new (h : Hunk) (l : Line) :
    Added h { h with lines := h.lines ++ [⟨PLUS, l⟩], new := { h.new with count := h.new.count + 1 } } [] [l] := by
  refine ⟨?_, ?_, ?_, ?_⟩
  · simp [oldOf_append]; simp [oldOf]
  · simp [newOf_append]; simp [newOf, MINUS, PLUS]
  · simp
  · simp

theorem Added.both (h : Hunk) (l : Line) :
    Added h { h with lines := h.lines ++ [⟨SP, l⟩], old := { h.old with count := h.old.count + 1 },
                     new := { h.new with count := h.new.count + 1 } } [l] [l] := by
  refine ⟨?_, ?_, ?_, ?_⟩
  · simp [oldOf_append]; simp [oldOf, SP, PLUS]
  · simp [newOf_append]; simp [newOf, SP, MINUS]
  · simp
  · simp

theorem ctxs_cons_sp (l : Line) (ls : List PatchLine) : ctxs (⟨SP, l⟩ :: ls) = l :: ctxs ls := by
  simp [ctxs]

theorem ctxs_cons_ne (op : UInt8) (l : Line) (ls : List PatchLine) (h : op ≠ SP) : ctxs (⟨op, l⟩ :: ls) = ctxs ls := by
  simp [ctxs, h]

theorem BANG_beq_MINUS : (BANG == MINUS) = false := by decide
theorem SP_beq_MINUS : (SP == MINUS) = false := by decide
theorem SP_beq_PLUS : (SP == PLUS) = false := by decide
theorem SP_beq_BANG : (SP == BANG) = false := by decide
theorem BANG_beq_PLUS : (BANG == PLUS) = false := by decide
theorem BANG_beq_SP : (BANG == SP) = false := by decide
theorem PLUS_beq_BANG : (PLUS == BANG) = false := by decide
theorem MINUS_ne_SP : MINUS ≠ SP := by decide
theorem PLUS_ne_SP : PLUS ≠ SP := by decide

theorem go_nil_right : ∀ (ol : List PatchLine), OldOps ol → ∀ (fuel : Nat) (h : Hunk), ol.length ≤ fuel →
    ∃ h', hunkFromContextParts.go fuel ol [] h = .ok h' ∧ Added h h' (ol.map (·.line)) (ctxs ol) := by
  intro ol
  induction ol with
  | nil =>
    intro _ fuel h _
    refine ⟨h, ?_, Added.refl h⟩
    cases fuel <;> simp [hunkFromContextParts.go]
  | cons o ol ih =>
    intro hops fuel h hf
    cases fuel with
    | zero => simp at hf
    | succ fuel =>
      have hops' : OldOps ol := fun l hl => hops l (by simp [hl])
      have hf' : ol.length ≤ fuel := by simpa using hf
      rcases o with ⟨op, l⟩
      rcases hops ⟨op, l⟩ (by simp) with hop | hop | hop <;> simp only at hop <;> subst hop
      · obtain ⟨h', hg, ha⟩ := ih hops' fuel _ hf'
        refine ⟨h', ?_, ?_⟩
        · simp only [hunkFromContextParts.go, List.head?_cons, List.head?_nil, List.tail_cons, SP_beq_MINUS,
            SP_beq_BANG, beq_self_eq_true, Bool.false_eq_true, if_false, if_true]
          exact hg
        · rw [List.map_cons, ctxs_cons_sp]
          exact (Added.both h l).trans ha
      · obtain ⟨h', hg, ha⟩ := ih hops' fuel _ hf'
        refine ⟨h', ?_, ?_⟩
        · simp only [hunkFromContextParts.go, List.head?_cons, List.head?_nil, List.tail_cons,
            beq_self_eq_true, if_true]
          exact hg
        · rw [List.map_cons, ctxs_cons_ne _ _ _ MINUS_ne_SP]
          exact (Added.old h l).trans ha
      · obtain ⟨h', hg, ha⟩ := ih hops' fuel _ hf'
        refine ⟨h', ?_, ?_⟩
        · simp only [hunkFromContextParts.go, List.head?_cons, List.head?_nil, List.tail_cons, BANG_beq_MINUS,
            beq_self_eq_true, Bool.false_eq_true, if_false, if_true]
          exact hg
        · rw [List.map_cons, ctxs_cons_ne _ _ _ BANG_ne_SP]
          exact (Added.old h l).trans ha

theorem go_nil_left : ∀ (nl : List PatchLine), NewOps nl → ∀ (fuel : Nat) (h : Hunk), nl.length ≤ fuel →
    ∃ h', hunkFromContextParts.go fuel [] nl h = .ok h' ∧ Added h h' (ctxs nl) (nl.map (·.line)) := by
  intro nl
  induction nl with
  | nil =>
    intro _ fuel h _
    refine ⟨h, ?_, Added.refl h⟩
    cases fuel <;> simp [hunkFromContextParts.go]
  | cons o nl ih =>
    intro hops fuel h hf
    cases fuel with
    | zero => simp at hf
    | succ fuel =>
      have hops' : NewOps nl := fun l hl => hops l (by simp [hl])
      have hf' : nl.length ≤ fuel := by simpa using hf
      rcases o with ⟨op, l⟩
      rcases hops ⟨op, l⟩ (by simp) with hop | hop | hop <;> simp only at hop <;> subst hop
      · obtain ⟨h', hg, ha⟩ := ih hops' fuel _ hf'
        refine ⟨h', ?_, ?_⟩
        · simp only [hunkFromContextParts.go, List.head?_cons, List.head?_nil, List.tail_cons, SP_beq_PLUS,
            SP_beq_BANG, beq_self_eq_true, Bool.false_eq_true, if_false, if_true]
          exact hg
        · rw [List.map_cons, ctxs_cons_sp]
          exact (Added.both h l).trans ha
      · obtain ⟨h', hg, ha⟩ := ih hops' fuel _ hf'
        refine ⟨h', ?_, ?_⟩
        · simp only [hunkFromContextParts.go, List.head?_cons, List.head?_nil, List.tail_cons,
            beq_self_eq_true, if_true]
          exact hg
        · rw [List.map_cons, ctxs_cons_ne _ _ _ PLUS_ne_SP]
          exact (Added.new h l).trans ha
      · obtain ⟨h', hg, ha⟩ := ih hops' fuel _ hf'
        refine ⟨h', ?_, ?_⟩
        · simp only [hunkFromContextParts.go, List.head?_cons, List.head?_nil, List.tail_cons, BANG_beq_PLUS,
            beq_self_eq_true, Bool.false_eq_true, if_false, if_true]
          exact hg
        · rw [List.map_cons, ctxs_cons_ne _ _ _ BANG_ne_SP]
          exact (Added.new h l).trans ha

theorem go_both : ∀ (fuel : Nat) (ol nl : List PatchLine) (h : Hunk), OldOps ol → NewOps nl → ctxs ol = ctxs nl →
    ol.length + nl.length ≤ fuel →
    ∃ h', hunkFromContextParts.go fuel ol nl h = .ok h' ∧ Added h h' (ol.map (·.line)) (nl.map (·.line)) := by
  intro fuel
  induction fuel with
  | zero =>
    intro ol nl h _ _ _ hf
    have h1 : ol = [] := by cases ol with | nil => rfl | cons a b => simp at hf
    have h2 : nl = [] := by cases nl with | nil => rfl | cons a b => simp at hf
    subst h1 h2
    exact ⟨h, rfl, Added.refl h⟩
  | succ fuel ih =>
    intro ol nl h hoo hno hc hf
    cases ol with
    | nil =>
      obtain ⟨h', hg, ha⟩ := go_nil_left nl hno (fuel + 1) h (by simpa using hf)
      refine ⟨h', hg, ?_⟩
      rw [← hc] at ha
      exact ha
    | cons o ol =>
      cases nl with
      | nil =>
        obtain ⟨h', hg, ha⟩ := go_nil_right (o :: ol) hoo (fuel + 1) h (by simpa using hf)
        refine ⟨h', hg, ?_⟩
        rw [hc] at ha
        exact ha
      | cons n nl =>
        have hoo' : OldOps ol := fun l hl => hoo l (by simp [hl])
        have hno' : NewOps nl := fun l hl => hno l (by simp [hl])
        simp only [List.length_cons] at hf
        rcases o with ⟨oop, ol1⟩
        rcases n with ⟨nop, nl1⟩
        rcases hoo ⟨oop, ol1⟩ (by simp) with hop | hop | hop <;> simp only at hop <;> subst hop
        · -- old context line
          rcases hno ⟨nop, nl1⟩ (by simp) with hop | hop | hop <;> simp only at hop <;> subst hop
          · rw [ctxs_cons_sp, ctxs_cons_sp] at hc
            obtain ⟨hl, hc'⟩ := List.cons.inj hc
            subst hl
            obtain ⟨h', hg, ha⟩ := ih ol nl _ hoo' hno' hc' (by omega)
            refine ⟨h', ?_, ?_⟩
            · simp only [hunkFromContextParts.go, List.head?_cons, List.tail_cons, SP_beq_MINUS, SP_beq_PLUS,
                SP_beq_BANG, beq_self_eq_true, Bool.false_eq_true, if_false, if_true, ne_eq, not_true_eq_false,
                Bool.and_self]
              exact hg
            · exact (Added.both h ol1).trans ha
          · rw [ctxs_cons_ne _ _ nl PLUS_ne_SP] at hc
            obtain ⟨h', hg, ha⟩ := ih (⟨SP, ol1⟩ :: ol) nl _ hoo hno' hc (by simp only [List.length_cons]; omega)
            refine ⟨h', ?_, ?_⟩
            · simp only [hunkFromContextParts.go, List.head?_cons, List.tail_cons, SP_beq_MINUS,
                beq_self_eq_true, Bool.false_eq_true, if_false, if_true]
              exact hg
            · exact (Added.new h nl1).trans ha
          · rw [ctxs_cons_ne _ _ nl BANG_ne_SP] at hc
            obtain ⟨h', hg, ha⟩ := ih (⟨SP, ol1⟩ :: ol) nl _ hoo hno' hc (by simp only [List.length_cons]; omega)
            refine ⟨h', ?_, ?_⟩
            · simp only [hunkFromContextParts.go, List.head?_cons, List.tail_cons, SP_beq_MINUS, BANG_beq_PLUS,
                SP_beq_BANG, beq_self_eq_true, Bool.false_eq_true, if_false, if_true]
              exact hg
            · exact (Added.new h nl1).trans ha
        · -- old '-' line
          rw [ctxs_cons_ne _ _ ol MINUS_ne_SP] at hc
          obtain ⟨h', hg, ha⟩ := ih ol (⟨nop, nl1⟩ :: nl) _ hoo' hno hc (by simp only [List.length_cons]; omega)
          refine ⟨h', ?_, ?_⟩
          · simp only [hunkFromContextParts.go, List.head?_cons, List.tail_cons, beq_self_eq_true, if_true]
            exact hg
          · exact (Added.old h ol1).trans ha
        · -- old '!' line
          rw [ctxs_cons_ne _ _ ol BANG_ne_SP] at hc
          rcases hno ⟨nop, nl1⟩ (by simp) with hop | hop | hop <;> simp only at hop <;> subst hop
          · obtain ⟨h', hg, ha⟩ := ih ol (⟨SP, nl1⟩ :: nl) _ hoo' hno hc (by simp only [List.length_cons]; omega)
            refine ⟨h', ?_, ?_⟩
            · simp only [hunkFromContextParts.go, List.head?_cons, List.tail_cons, BANG_beq_MINUS, SP_beq_PLUS,
                beq_self_eq_true, Bool.false_eq_true, if_false, if_true]
              exact hg
            · exact (Added.old h ol1).trans ha
          · rw [ctxs_cons_ne _ _ nl PLUS_ne_SP] at hc
            obtain ⟨h', hg, ha⟩ := ih (⟨BANG, ol1⟩ :: ol) nl _ hoo hno' hc (by simp only [List.length_cons]; omega)
            refine ⟨h', ?_, ?_⟩
            · simp only [hunkFromContextParts.go, List.head?_cons, List.tail_cons, BANG_beq_MINUS,
                beq_self_eq_true, Bool.false_eq_true, if_false, if_true]
              exact hg
            · exact (Added.new h nl1).trans ha
          · obtain ⟨h', hg, ha⟩ := ih ol (⟨BANG, nl1⟩ :: nl) _ hoo' hno hc (by simp only [List.length_cons]; omega)
            refine ⟨h', ?_, ?_⟩
            · simp only [hunkFromContextParts.go, List.head?_cons, List.tail_cons, BANG_beq_MINUS, BANG_beq_PLUS,
                beq_self_eq_true, Bool.false_eq_true, if_false, if_true]
              exact hg
            · exact (Added.old h ol1).trans ha

theorem Added.init {os ns : Int} {h' : Hunk} {a b : List Line} (x : Added ⟨⟨os, 0⟩, ⟨ns, 0⟩, []⟩ h' a b) :
    oldOf h'.lines = a ∧ newOf h'.lines = b ∧ h'.old = ⟨os, a.length⟩ ∧ h'.new = ⟨ns, b.length⟩ := by
  obtain ⟨x1, x2, x3, x4⟩ := x
  refine ⟨by simpa [oldOf] using x1, by simpa [newOf] using x2, by simpa using x3, by simpa using x4⟩

theorem hunkFromParts_both (os ns : Int) (ol nl : List PatchLine) (hoo : OldOps ol) (hno : NewOps nl)
    (hc : ctxs ol = ctxs nl) :
    ∃ h', hunkFromContextParts os ol ns nl = .ok h' ∧ oldOf h'.lines = ol.map (·.line) ∧
      newOf h'.lines = nl.map (·.line) ∧ h'.old = ⟨os, ol.length⟩ ∧ h'.new = ⟨ns, nl.length⟩ := by
  obtain ⟨h', hg, ha⟩ := go_both (ol.length + nl.length + 1) ol nl ⟨⟨os, 0⟩, ⟨ns, 0⟩, []⟩ hoo hno hc (by omega)
  have := ha.init
  simp only [List.length_map] at this
  exact ⟨h', hg, this⟩

theorem hunkFromParts_oldOmitted (os ns : Int) (nl : List PatchLine) (hno : NewOps nl) :
    ∃ h', hunkFromContextParts os [] ns nl = .ok h' ∧ oldOf h'.lines = ctxs nl ∧
      newOf h'.lines = nl.map (·.line) ∧ h'.old = ⟨os, (ctxs nl).length⟩ ∧ h'.new = ⟨ns, nl.length⟩ := by
  obtain ⟨h', hg, ha⟩ := go_nil_left nl hno (([] : List PatchLine).length + nl.length + 1) ⟨⟨os, 0⟩, ⟨ns, 0⟩, []⟩
    (by simp)
  have := ha.init
  simp only [List.length_map] at this
  exact ⟨h', hg, this⟩

theorem hunkFromParts_newOmitted (os ns : Int) (ol : List PatchLine) (hoo : OldOps ol) :
    ∃ h', hunkFromContextParts os ol ns [] = .ok h' ∧ oldOf h'.lines = ol.map (·.line) ∧
      newOf h'.lines = ctxs ol ∧ h'.old = ⟨os, ol.length⟩ ∧ h'.new = ⟨ns, (ctxs ol).length⟩ := by
  obtain ⟨h', hg, ha⟩ := go_nil_right ol hoo (ol.length + ([] : List PatchLine).length + 1) ⟨⟨os, 0⟩, ⟨ns, 0⟩, []⟩
    (by simp)
  have := ha.init
  simp only [List.length_map] at this
  exact ⟨h', hg, this⟩

/-! ### the missing-newline marker: only the last line of a side can carry it -/

def NoneOnlyLast : List Line → Prop
  | [] => True
  | [_] => True
  | x :: y :: r => x.newline ≠ .none ∧ NoneOnlyLast (y :: r)

theorem NoneOnlyLast_cons (x : Line) (xs : List Line) (h1 : xs ≠ [] → x.newline ≠ .none) (h2 : NoneOnlyLast xs) :
    NoneOnlyLast (x :: xs) := by
  cases xs with
  | nil => trivial
  | cons y r => exact ⟨h1 (by simp), h2⟩

theorem isEmpty_oldOf_of_isEmpty {rest : List PatchLine} (h : rest.isEmpty = true) : oldOf rest = [] := by
  have : rest = [] := by simpa using h
  subst this; rfl

theorem noneOnlyLast_oldOf (ls : List PatchLine) (h : noNlOnlyLast ls = true) : NoneOnlyLast (oldOf ls) := by
  induction ls with
  | nil => trivial
  | cons pl rest ih =>
    rw [noNlOnlyLast, Bool.and_eq_true] at h
    obtain ⟨h1, h2⟩ := h
    by_cases hp : pl.op = PLUS
    · rw [Cpp.oldOf_cons_plus rest hp]; exact ih h2
    · have : oldOf (pl :: rest) = pl.line :: oldOf rest := by simp [oldOf, hp]
      rw [this]
      apply NoneOnlyLast_cons _ _ _ (ih h2)
      intro hne hnone
      rw [if_pos hnone] at h1
      split at h1
      · exact hne (by simpa using h1)
      · rename_i hm
        split at h1
        · rename_i hpp; exact hp (by simpa using hpp)
        · have : rest = [] := by simpa using h1
          subst this; exact hne rfl

theorem noneOnlyLast_newOf (ls : List PatchLine) (h : noNlOnlyLast ls = true) : NoneOnlyLast (newOf ls) := by
  induction ls with
  | nil => trivial
  | cons pl rest ih =>
    rw [noNlOnlyLast, Bool.and_eq_true] at h
    obtain ⟨h1, h2⟩ := h
    by_cases hp : pl.op = MINUS
    · rw [Cpp.newOf_cons_minus rest hp]; exact ih h2
    · have : newOf (pl :: rest) = pl.line :: newOf rest := by simp [newOf, hp]
      rw [this]
      apply NoneOnlyLast_cons _ _ _ (ih h2)
      intro hne hnone
      rw [if_pos hnone] at h1
      split at h1
      · rename_i hm; exact hp (by simpa using hm)
      · split at h1
        · exact hne (by simpa using h1)
        · have : rest = [] := by simpa using h1
          subst this; exact hne rfl

/-- (statement changed with the model, `mark_as_unterminated`: the CR of a CR LF terminator stays, as content; before:
    `… = xs ++ [⟨x.op, ⟨x.line.content, .none⟩⟩]`) -/
theorem markLastNone_concat (xs : List PatchLine) (x : PatchLine) :
    markLastNone (xs ++ [x]) =
      xs ++ [⟨x.op, ⟨if x.line.newline = .crlf then x.line.content ++ [CR] else x.line.content, .none⟩⟩] := by
  simp [markLastNone]

theorem markLastNone_cons_cons (a b : PatchLine) (r : List PatchLine) :
    markLastNone (a :: b :: r) = a :: markLastNone (b :: r) := by
  rcases List.eq_nil_or_concat (b :: r) with h | ⟨init, last, h⟩
  · cases h
  · rw [h, List.concat_eq_append]
    have : a :: (init ++ [last]) = (a :: init) ++ [last] := rfl
    rw [this, markLastNone_concat, markLastNone_concat]; rfl

theorem lastNone_cons_cons (a b : PatchLine) (r : List PatchLine) : lastNone (a :: b :: r) = lastNone (b :: r) := by
  simp [lastNone, List.getLast?_cons_cons]

theorem wireOf_of_ne_none (t : PatchLine) (h : t.line.newline ≠ .none) : wireOf t = t := by
  rcases t with ⟨op, l⟩
  simp only [wireOf, (Unified.wireOK_wire l).2.1 h]

/-- the parser reads a half back as it was: every line with its terminator class, the marker on the last line kept -/
theorem readBack_eq : ∀ (ts : List PatchLine), NoneOnlyLast (ts.map (·.line)) → readBack ts = ts
  | [], _ => by simp [readBack, lastNone]
  | [t], _ => by
    by_cases h : t.line.newline = .none
    · have hm := markLastNone_concat [] (wireOf t)
      have hw : (if (wireOf t).line.newline = .crlf then (wireOf t).line.content ++ [CR] else (wireOf t).line.content)
          = t.line.content := (Unified.wireOK_wire t.line).2.2 h
      rw [hw] at hm
      simp only [List.nil_append] at hm
      have hl : lastNone [t] = true := by simp [lastNone, h]
      unfold readBack
      rw [hl, if_pos rfl, List.map_cons, List.map_nil, hm]
      rcases t with ⟨op, ⟨c, nl⟩⟩
      simp only at h
      subst h
      rfl
    · simp [readBack, lastNone, h, wireOf_of_ne_none t h]
  | t :: u :: r, h => by
    obtain ⟨h1, h2⟩ := h
    have ih := readBack_eq (u :: r) h2
    unfold readBack at ih ⊢
    rw [lastNone_cons_cons]
    simp only [List.map_cons] at ih ⊢
    rw [markLastNone_cons_cons, wireOf_of_ne_none t h1]
    split
    · rename_i hl; rw [if_pos hl] at ih; rw [ih]
    · rename_i hl; rw [if_neg hl] at ih; rw [ih]

/-- the same two sides, line by line (content and terminator class of every line), and the same ranges:
    all that a context diff says of a hunk (the interleaving of '-' and '+' lines is not in the text) -/
def sameSides (a b : Hunk) : Prop :=
  oldOf a.lines = oldOf b.lines ∧ newOf a.lines = newOf b.lines ∧ a.old = b.old ∧ a.new = b.new

theorem sameSides.sameChange {a b : Hunk} (h : sameSides a b) : sameChange a b :=
  ⟨by rw [h.1], by rw [h.2.1], h.2.2.1, h.2.2.2⟩

/-! ### one hunk: written, split into lines, parsed -/

theorem halfOp_of_oldOps {ls : List PatchLine} (h : OldOps ls) : ∀ l ∈ ls, HalfOp l.op := by
  intro l hl
  rcases h l hl with h | h | h
  · exact .inl h
  · exact .inr (.inr (.inl h))
  · exact .inr (.inr (.inr h))

theorem halfOp_of_newOps {ls : List PatchLine} (h : NewOps ls) : ∀ l ∈ ls, HalfOp l.op := by
  intro l hl
  rcases h l hl with h | h | h
  · exact .inl h
  · exact .inr (.inl h)
  · exact .inr (.inr (.inr h))

theorem halfOp_ne_NL {op : UInt8} (h : HalfOp op) : op ≠ NL := by
  rcases h with h | h | h | h <;> rw [h] <;> decide

theorem plain_halvesTexts (O N : List PatchLine) (oR nR : Range) (hoR : RangeOK oR) (hnR : RangeOK nR)
    (hO : ∀ l ∈ O, HalfOp l.op ∧ Unified.okLine l.line = true) (hN : ∀ l ∈ N, HalfOp l.op ∧ Unified.okLine l.line = true) :
    ∀ t ∈ halvesTexts O oR N nR, PlainL t := by
  intro t ht
  unfold halvesTexts at ht
  rcases List.mem_cons.mp ht with rfl | ht
  · exact plainL_lf (plain_oldRangeText oR hoR.1 hoR.2.1)
  rcases List.mem_append.mp ht with ht | ht
  · exact plain_halfTexts O (fun l hl => halfOp_ne_NL (hO l hl).1) (fun l hl => (hO l hl).2) t ht
  rcases List.mem_cons.mp ht with rfl | ht
  · exact plainL_lf (plain_newRangeText nR hnR.1 hnR.2.1)
  · exact plain_halfTexts N (fun l hl => halfOp_ne_NL (hN l hl).1) (fun l hl => (hN l hl).2) t ht

theorem oldOf_eq_ctxs (L : List PatchLine) (hops : ∀ pl ∈ L, pl.op = SP ∨ pl.op = PLUS ∨ pl.op = MINUS)
    (h : L.all (·.op != MINUS) = true) : oldOf L = ctxs L := by
  induction L with
  | nil => rfl
  | cons pl L ih =>
    simp only [List.all_cons, Bool.and_eq_true, bne_iff_ne, ne_eq] at h
    have ih' := ih (fun p hp => hops p (by simp [hp])) h.2
    rcases pl with ⟨op, l⟩
    rcases hops ⟨op, l⟩ (by simp) with hp | hp | hp <;> simp only at hp <;> subst hp
    · rw [Cpp.oldOf_cons_sp L rfl, ih', ctxs_cons_sp]
    · rw [Cpp.oldOf_cons_plus L rfl, ih', ctxs_cons_ne _ _ _ PLUS_ne_SP]
    · exact absurd rfl h.1

theorem newOf_eq_ctxs (L : List PatchLine) (hops : ∀ pl ∈ L, pl.op = SP ∨ pl.op = PLUS ∨ pl.op = MINUS)
    (h : L.all (·.op != PLUS) = true) : newOf L = ctxs L := by
  induction L with
  | nil => rfl
  | cons pl L ih =>
    simp only [List.all_cons, Bool.and_eq_true, bne_iff_ne, ne_eq] at h
    have ih' := ih (fun p hp => hops p (by simp [hp])) h.2
    rcases pl with ⟨op, l⟩
    rcases hops ⟨op, l⟩ (by simp) with hp | hp | hp <;> simp only at hp <;> subst hp
    · rw [Cpp.newOf_cons_sp L rfl, ih', ctxs_cons_sp]
    · exact absurd rfl h.1
    · rw [Cpp.newOf_cons_minus L rfl, ih', ctxs_cons_ne _ _ _ MINUS_ne_SP]

theorem oldOf_ne_nil_of_minus (L : List PatchLine) (h : L.all (·.op != MINUS) = false) : oldOf L ≠ [] := by
  intro hn
  have : L.all (·.op != MINUS) = true := by
    rw [List.all_eq_true]
    intro pl hpl
    by_cases hm : pl.op = MINUS
    · exfalso
      have : pl.line ∈ oldOf L := by
        unfold oldOf
        exact List.mem_map.mpr ⟨pl, List.mem_filter.mpr ⟨hpl, by rw [hm]; decide⟩, rfl⟩
      rw [hn] at this; cases this
    · simpa using hm
  rw [this] at h; cases h

theorem newOf_ne_nil_of_noMinus (L : List PatchLine) (hne : L ≠ []) (h : L.all (·.op != MINUS) = true) :
    newOf L ≠ [] := by
  cases L with
  | nil => exact absurd rfl hne
  | cons pl L =>
    simp only [List.all_cons, Bool.and_eq_true] at h
    simp [newOf, h.1]

theorem mem_oldOf_line {L : List PatchLine} {l : Line} (h : l ∈ oldOf L) : ∃ pl ∈ L, pl.line = l := by
  unfold oldOf at h
  obtain ⟨pl, hpl, rfl⟩ := List.mem_map.mp h
  exact ⟨pl, (List.mem_filter.mp hpl).1, rfl⟩

theorem mem_newOf_line {L : List PatchLine} {l : Line} (h : l ∈ newOf L) : ∃ pl ∈ L, pl.line = l := by
  unfold newOf at h
  obtain ⟨pl, hpl, rfl⟩ := List.mem_map.mp h
  exact ⟨pl, (List.mem_filter.mp hpl).1, rfl⟩

/-- what `writable` says -/
theorem writable_spec (h : Hunk) (hw : h.writable = true) :
    (∀ pl ∈ h.lines, pl.op = SP ∨ pl.op = PLUS ∨ pl.op = MINUS) ∧
    h.old.count = ((oldOf h.lines).length : Int) ∧ h.new.count = ((newOf h.lines).length : Int) ∧
    h.lines ≠ [] ∧ (∀ pl ∈ h.lines, plainLine pl.line = true) ∧ noNlOnlyLast h.lines = true ∧
    0 ≤ h.old.start ∧ 0 ≤ h.new.start ∧ h.old.start + h.old.count ≤ i64Max / 4 ∧ h.new.start + h.new.count ≤ i64Max / 4 := by
  unfold Hunk.writable Hunk.wfB at hw
  simp only [Bool.and_eq_true, List.all_eq_true, Bool.or_eq_true, beq_iff_eq, decide_eq_true_eq,
    Bool.not_eq_true', List.isEmpty_eq_false_iff] at hw
  obtain ⟨⟨⟨⟨⟨⟨⟨⟨⟨h1, h2⟩, h3⟩, h4⟩, h5⟩, h6⟩, h7⟩, h8⟩, h9⟩, h10⟩ := hw
  refine ⟨?_, h2, h3, h4, h5, h6, h7, h8, h9, h10⟩
  intro pl hpl
  rcases h1 pl hpl with (h | h) | h
  · exact Or.inl h
  · exact Or.inr (Or.inl h)
  · exact Or.inr (Or.inr h)

/-- what `writableCR` says (`writable_spec` with `Unified.okLine` in place of `plainLine`) -/
theorem writableCR_spec (h : Hunk) (hw : Unified.writableCR h = true) :
    (∀ pl ∈ h.lines, pl.op = SP ∨ pl.op = PLUS ∨ pl.op = MINUS) ∧
    h.old.count = ((oldOf h.lines).length : Int) ∧ h.new.count = ((newOf h.lines).length : Int) ∧
    h.lines ≠ [] ∧ (∀ pl ∈ h.lines, Unified.okLine pl.line = true) ∧ noNlOnlyLast h.lines = true ∧
    0 ≤ h.old.start ∧ 0 ≤ h.new.start ∧ h.old.start + h.old.count ≤ i64Max / 4 ∧ h.new.start + h.new.count ≤ i64Max / 4 := by
  obtain ⟨⟨h1, h2, h3, h4, h6, h7, h8, h9, h10⟩, h5⟩ := Unified.writableCR_spec h hw
  exact ⟨h1, h2, h3, h4, h5, h6, h7, h8, h9, h10⟩

/-- the final state of the writer's loop and the text it writes -/
theorem writeHunkContext_texts (h : Hunk) (hops : ∀ pl ∈ h.lines, pl.op = SP ∨ pl.op = PLUS ∨ pl.op = MINUS)
    (b : Bytes) (hb : writeHunkContext h = .ok b) :
    ∃ s, CtxInv h.lines s ∧ CtxNoBang h.lines s ∧
      b = unlines (if s.allIns then halvesTexts [] h.old s.newLines h.new
                   else if s.allDel then halvesTexts s.oldLines h.old [] h.new
                   else halvesTexts s.oldLines h.old s.newLines h.new) := by
  unfold writeHunkContext at hb
  split at hb
  · cases hb
  · rename_i s hs
    have hi := ctxFold_inv h h.lines [] {} s CtxInv.init hops hs
    rw [List.nil_append] at hi
    have hnb := ctxFold_noBang h h.lines [] {} s CtxNoBang.init hops hs
    rw [List.nil_append] at hnb
    refine ⟨s, hi, hnb, ?_⟩
    split at hb
    · cases hb
    · split at hb
      · cases hb; rw [if_pos (by assumption), writeContextHalves_eq]
      · split at hb
        · cases hb; rw [if_neg (by assumption), if_pos (by assumption), writeContextHalves_eq]
        · cases hb; rw [if_neg (by assumption), if_neg (by assumption), writeContextHalves_eq]

/-- what may follow a hunk in a reject file: nothing, or the separator -/
def TailOK (tail : List Line) : Prop := tail = [] ∨ ∃ more, tail = lfLine starsText :: more

theorem TailOK.noBackslash {tail : List Line} (h : TailOK tail) : NoBackslash tail := by
  rcases h with rfl | ⟨more, rfl⟩
  · exact noBackslash_nil
  · exact noBackslash_stars more

/-- where the parser stands after a hunk -/
def AfterHunk (tail : List Line) (par : Parser) : Prop :=
  (tail = [] ∧ par.s.rest = []) ∨
  ∃ more, tail = lfLine starsText :: more ∧ ∃ n', par = mkPar tail n' ∨ par = mkPar more n'

/-- the text lines `ts` of one hunk are read back as a hunk with the same two sides and ranges as `h` -/
def HunkRT (ts : List Line) (h : Hunk) : Prop :=
  (∀ t ∈ ts, PlainL t) ∧ (∃ r rest, ts = lfLine (oldRangeText r) :: rest) ∧
  ∀ (pre tail : List Line) (n : Nat), (pre = [] ∨ pre = [lfLine starsText]) → TailOK tail →
    ∃ ol os nl ns par1 h', parseContextHunk (mkPar (pre ++ (ts ++ tail)) n) = .ok (ol, os, nl, ns, par1) ∧
      HalfGuardOff ol nl ∧ hunkFromContextParts os ol ns nl = .ok h' ∧ sameSides h' h ∧ AfterHunk tail par1

theorem range_eta (r : Range) (c : Int) (h : r.count = c) : (⟨r.start, c⟩ : Range) = r := by
  cases r; simp at h; simp [h]

theorem hunk_roundtrip (NR : NumberRoundtrip) (h : Hunk) (hw : Unified.writableCR h = true) (b : Bytes)
    (hb : writeHunkContext h = .ok b) : ∃ ts, b = unlines ts ∧ HunkRT ts h := by
  obtain ⟨hops, hoc, hnc, hne, hplain, hnl, hos, hns, hob, hnb⟩ := writableCR_spec h hw
  obtain ⟨s, hi, hbang, rfl⟩ := writeHunkContext_texts h hops b hb
  have hoR : RangeOK h.old := ⟨hos, by omega, hob⟩
  have hnR : RangeOK h.new := ⟨hns, by omega, hnb⟩
  have hOl : s.oldLines.length = (oldOf h.lines).length := by rw [← hi.oldLine, List.length_map]
  have hNl : s.newLines.length = (newOf h.lines).length := by rw [← hi.newLine, List.length_map]
  have hoc' : h.old.count = (s.oldLines.length : Int) := by rw [hOl]; exact hoc
  have hnc' : h.new.count = (s.newLines.length : Int) := by rw [hNl]; exact hnc
  have hOp : ∀ l ∈ s.oldLines, HalfOp l.op ∧ Unified.okLine l.line = true := by
    intro l hl
    refine ⟨halfOp_of_oldOps hi.oldOps l hl, ?_⟩
    have : l.line ∈ oldOf h.lines := by rw [← hi.oldLine]; exact List.mem_map.mpr ⟨l, hl, rfl⟩
    obtain ⟨pl, hpl, he⟩ := mem_oldOf_line this
    rw [← he]; exact hplain pl hpl
  have hNp : ∀ l ∈ s.newLines, HalfOp l.op ∧ Unified.okLine l.line = true := by
    intro l hl
    refine ⟨halfOp_of_newOps hi.newOps l hl, ?_⟩
    have : l.line ∈ newOf h.lines := by rw [← hi.newLine]; exact List.mem_map.mpr ⟨l, hl, rfl⟩
    obtain ⟨pl, hpl, he⟩ := mem_newOf_line this
    rw [← he]; exact hplain pl hpl
  have hrbO : readBack s.oldLines = s.oldLines :=
    readBack_eq _ (by rw [hi.oldLine]; exact noneOnlyLast_oldOf _ hnl)
  have hrbN : readBack s.newLines = s.newLines :=
    readBack_eq _ (by rw [hi.newLine]; exact noneOnlyLast_newOf _ hnl)
  by_cases hIns : s.allIns = true
  · -- all insertions: the old half is omitted
    rw [if_pos hIns]
    refine ⟨_, rfl, plain_halvesTexts _ _ _ _ hoR hnR (by simp) hNp, ⟨_, _, rfl⟩, ?_⟩
    intro pre tail n hpre htail
    have hall : h.lines.all (·.op != MINUS) = true := by rw [← hi.allIns]; exact hIns
    have hN : s.newLines ≠ [] := by
      intro hn; rw [hn] at hNl
      exact newOf_ne_nil_of_noMinus _ hne hall (List.length_eq_zero_iff.mp hNl.symm)
    obtain ⟨n', hp⟩ := parseHunk_oldOmitted NR pre hpre s.newLines h.old h.new hoR hnR hnc' hN
      (halfOp_of_newOps hi.newOps) tail htail.noBackslash n
    rw [hrbN] at hp
    obtain ⟨h', hh, e1, e2, e3, e4⟩ := hunkFromParts_oldOmitted h.old.start h.new.start _ hi.newOps
    refine ⟨_, _, _, _, _, h', hp, halfGuardOff_left (hbang.1 hall).2, hh, ⟨?_, ?_, ?_, ?_⟩, ?_⟩
    · rw [e1, hi.newCtx, oldOf_eq_ctxs _ hops hall]
    · rw [e2, hi.newLine]
    · rw [e3, hi.newCtx, ← oldOf_eq_ctxs _ hops hall]
      exact range_eta _ _ hoc
    · rw [e4]
      exact range_eta _ _ hnc'
    · rcases htail with rfl | ⟨more, rfl⟩
      · exact .inl ⟨rfl, rfl⟩
      · exact .inr ⟨more, rfl, n', .inl rfl⟩
  · rw [if_neg hIns]
    have hIns' : h.lines.all (·.op != MINUS) = false := by
      rw [← hi.allIns]; simpa using hIns
    have hO : s.oldLines ≠ [] := by
      intro hn; rw [hn] at hOl
      exact oldOf_ne_nil_of_minus _ hIns' (List.length_eq_zero_iff.mp hOl.symm)
    by_cases hDel : s.allDel = true
    · -- all deletions: the new half is omitted
      rw [if_pos hDel]
      refine ⟨_, rfl, plain_halvesTexts _ _ _ _ hoR hnR hOp (by simp), ⟨_, _, rfl⟩, ?_⟩
      intro pre tail n hpre htail
      have hall : h.lines.all (·.op != PLUS) = true := by rw [← hi.allDel]; exact hDel
      obtain ⟨par', hp, hafter⟩ := parseHunk_newOmitted NR pre hpre s.oldLines h.old h.new hoR hnR hoc' hO
        (halfOp_of_oldOps hi.oldOps) tail htail n
      rw [hrbO] at hp
      obtain ⟨h', hh, e1, e2, e3, e4⟩ := hunkFromParts_newOmitted h.old.start h.new.start _ hi.oldOps
      refine ⟨_, _, _, _, _, h', hp, halfGuardOff_right (hbang.2 hall).2, hh, ⟨?_, ?_, ?_, ?_⟩, ?_⟩
      · rw [e1, hi.oldLine]
      · rw [e2, hi.oldCtx, newOf_eq_ctxs _ hops hall]
      · rw [e3]
        exact range_eta _ _ hoc'
      · rw [e4, hi.oldCtx, ← newOf_eq_ctxs _ hops hall]
        exact range_eta _ _ hnc
      · rcases hafter with ⟨rfl, hr⟩ | ⟨more, n', rfl, rfl⟩
        · exact .inl ⟨rfl, hr⟩
        · exact .inr ⟨more, rfl, n', .inr rfl⟩
    · -- both halves
      rw [if_neg hDel]
      refine ⟨_, rfl, plain_halvesTexts _ _ _ _ hoR hnR hOp hNp, ⟨_, _, rfl⟩, ?_⟩
      intro pre tail n hpre htail
      have hDel' : h.lines.all (·.op != PLUS) = false := by
        rw [← hi.allDel]; simpa using hDel
      have hN : s.newLines ≠ [] := by
        intro hn; rw [hn] at hNl
        have : newOf h.lines = [] := List.length_eq_zero_iff.mp hNl.symm
        have hall : h.lines.all (·.op != PLUS) = true := by
          rw [List.all_eq_true]
          intro pl hpl
          by_cases hm : pl.op = PLUS
          · exfalso
            have hmem : pl.line ∈ newOf h.lines := by
              unfold newOf
              exact List.mem_map.mpr ⟨pl, List.mem_filter.mpr ⟨hpl, by rw [hm]; decide⟩, rfl⟩
            rw [this] at hmem; cases hmem
          · simpa using hm
        rw [hall] at hDel'; cases hDel'
      obtain ⟨n', hp⟩ := parseHunk_both NR pre hpre s.oldLines s.newLines h.old h.new hoR hnR hoc' hnc' hO hN
        (halfOp_of_oldOps hi.oldOps) (halfOp_of_newOps hi.newOps)
        (by intro l hl; rcases hi.newOps l hl with h | h | h <;> rw [h] <;> decide)
        tail htail.noBackslash n
      rw [hrbO, hrbN] at hp
      obtain ⟨h', hh, e1, e2, e3, e4⟩ := hunkFromParts_both h.old.start h.new.start _ _
        hi.oldOps hi.newOps (by rw [hi.oldCtx, hi.newCtx])
      refine ⟨_, _, _, _, _, h', hp, halfGuardOff_of_ne_nil hO hN, hh, ⟨?_, ?_, ?_, ?_⟩, ?_⟩
      · rw [e1, hi.oldLine]
      · rw [e2, hi.newLine]
      · rw [e3]
        exact range_eta _ _ hoc'
      · rw [e4]
        exact range_eta _ _ hnc'
      · rcases htail with rfl | ⟨more, rfl⟩
        · exact .inl ⟨rfl, rfl⟩
        · exact .inr ⟨more, rfl, n', .inl rfl⟩

/-! ### the whole body -/

/-- two lists related element by element -/
def Forall2 {α β : Type} (R : α → β → Prop) : List α → List β → Prop
  | [], [] => True
  | a :: as, b :: bs => R a b ∧ Forall2 R as bs
  | _, _ => False

theorem Forall2.length_eq {α β : Type} {R : α → β → Prop} : ∀ {as : List α} {bs : List β}, Forall2 R as bs →
    as.length = bs.length
  | [], [], _ => rfl
  | _ :: as, _ :: bs, h => by simp [Forall2.length_eq (as := as) (bs := bs) h.2]
  | [], _ :: _, h => h.elim
  | _ :: _, [], h => h.elim

theorem Forall2.get {α β : Type} {R : α → β → Prop} : ∀ {as : List α} {bs : List β}, Forall2 R as bs →
    ∀ i (hi : i < as.length) (hi' : i < bs.length), R as[i] bs[i]
  | [], [], _, i, hi, _ => by simp at hi
  | a :: as, b :: bs, h, i, hi, hi' => by
    cases i with
    | zero => exact h.1
    | succ i => exact Forall2.get (as := as) (bs := bs) h.2 i (by simpa using hi) (by simpa using hi')
  | [], _ :: _, h, _, _, _ => h.elim
  | _ :: _, [], h, _, _, _ => h.elim

/-- the text lines of a reject body: the hunks' lines, separated by the stars line -/
def bodyTexts : List (List Line) → List Line
  | [] => []
  | [ts] => ts
  | ts :: ts' :: rest => ts ++ lfLine starsText :: bodyTexts (ts' :: rest)

theorem ctxRejectBody_texts (NR : NumberRoundtrip) : ∀ (hs : List Hunk), (∀ h ∈ hs, Unified.writableCR h = true) →
    ∀ bytes, ctxRejectBody hs = .ok bytes →
    ∃ tss, Forall2 HunkRT tss hs ∧ bytes = unlines (bodyTexts tss) := by
  intro hs
  induction hs with
  | nil =>
    intro _ bytes hb
    simp [ctxRejectBody] at hb
    exact ⟨[], trivial, by simp [← hb, bodyTexts]⟩
  | cons h hs ih =>
    intro hw bytes hb
    rw [ctxRejectBody] at hb
    split at hb
    · rename_i b rest hb1 hb2
      cases hb
      obtain ⟨ts, rfl, hrt⟩ := hunk_roundtrip NR h (hw h (by simp)) b hb1
      obtain ⟨tss, hf, rfl⟩ := ih (fun h' hh' => hw h' (by simp [hh'])) rest hb2
      refine ⟨ts :: tss, ⟨hrt, hf⟩, ?_⟩
      cases hs with
      | nil =>
        cases tss with
        | nil => simp [bodyTexts]
        | cons _ _ => exact hf.elim
      | cons h2 hs =>
        cases tss with
        | nil => exact hf.elim
        | cons ts2 tss =>
          simp only [List.isEmpty_cons, Bool.false_eq_true, if_false, bodyTexts]
          rw [unlines_append, unlines_cons, starsLine_eq]
          simp [lfLine, lineEnd]
    · cases hb
    · cases hb

theorem plain_bodyTexts : ∀ (tss : List (List Line)), (∀ ts ∈ tss, ∀ t ∈ ts, PlainL t) →
    ∀ t ∈ bodyTexts tss, PlainL t
  | [], _ => by simp [bodyTexts]
  | [ts], h => by simpa [bodyTexts] using h
  | ts :: ts' :: rest, h => by
    intro t ht
    simp only [bodyTexts, List.mem_append, List.mem_cons] at ht
    rcases ht with ht | rfl | ht
    · exact h ts (by simp) t ht
    · exact plainL_lf plain_starsText
    · exact plain_bodyTexts (ts' :: rest) (fun x hx => h x (by simp [hx])) t ht

theorem body_stage_stop (fuel : Nat) (par par1 par2 : Parser) (acc : List Hunk) (ol nl : List PatchLine) (os ns : Int)
    (h : Hunk) (h1 : parseContextHunk par = .ok (ol, os, nl, ns, par1)) (hg : HalfGuardOff ol nl)
    (h2 : hunkFromContextParts os ol ns nl = .ok h)
    (h3 : par1.getLine = (none, par2)) :
    ∃ par3, parseContextBody (fuel + 1) par acc = .ok (acc ++ [h], par3) ∧ par3.s.rest = par1.s.rest := by
  refine ⟨{ par2 with s := par2.s.seek par1.s.rest }, ?_, rfl⟩
  rw [parseContextBody]
  unfold HalfGuardOff at hg
  simp only [h1, hg, h2, h3, startsWith_nil_stars15, startsWith_nil_old]
  simp

theorem body_stage_continue (fuel : Nat) (par par1 par2 : Parser) (acc : List Hunk) (ol nl : List PatchLine) (os ns : Int)
    (h : Hunk) (l : Line) (h1 : parseContextHunk par = .ok (ol, os, nl, ns, par1)) (hg : HalfGuardOff ol nl)
    (h2 : hunkFromContextParts os ol ns nl = .ok h)
    (h3 : par1.getLine = (some l, par2))
    (h4 : startsWith l.content "***************" = true ∨
      (startsWith l.content "*** " = true ∧ endsWith l.content " ****" = true)) :
    parseContextBody (fuel + 1) par acc
      = parseContextBody fuel { par2 with s := par2.s.seek par1.s.rest } (acc ++ [h]) := by
  rw [parseContextBody]
  unfold HalfGuardOff at hg
  simp only [h1, hg, h2, h3]
  rcases h4 with h4 | ⟨h4, h5⟩
  · simp [h4]
  · simp [h4, h5]

theorem bodyTexts_head (r : Range) (rest : List Line) (tss : List (List Line)) :
    ∃ rest', bodyTexts ((lfLine (oldRangeText r) :: rest) :: tss) = lfLine (oldRangeText r) :: rest' := by
  cases tss with
  | nil => exact ⟨rest, rfl⟩
  | cons ts' tss => exact ⟨_, rfl⟩

theorem startsWith_oldRangeText (r : Range) : startsWith (oldRangeText r) "*** " = true := by
  simp only [oldRangeText, List.append_assoc]; exact startsWith_old _

theorem endsWith_oldRangeText (r : Range) : endsWith (oldRangeText r) " ****" = true := by
  simp only [oldRangeText]; exact endsWith_old _

theorem parseBody_rt : ∀ (tss : List (List Line)) (hs : List Hunk), Forall2 HunkRT tss hs → tss ≠ [] →
    ∀ (fuel : Nat) (pre : List Line) (n : Nat) (acc : List Hunk), hs.length < fuel →
      (pre = [] ∨ pre = [lfLine starsText]) →
      ∃ hs' par', parseContextBody fuel (mkPar (pre ++ bodyTexts tss) n) acc = .ok (acc ++ hs', par') ∧
        Forall2 sameSides hs' hs ∧ par'.s.rest = [] := by
  intro tss
  induction tss with
  | nil => intro _ _ hne; exact absurd rfl hne
  | cons ts tss ih =>
    intro hs hf _ fuel pre n acc hfuel hpre
    cases hs with
    | nil => exact hf.elim
    | cons h hs =>
      obtain ⟨hrt, hf'⟩ := hf
      cases fuel with
      | zero => simp at hfuel
      | succ fuel =>
        simp only [List.length_cons] at hfuel
        cases tss with
        | nil =>
          cases hs with
          | cons _ _ => exact hf'.elim
          | nil =>
            obtain ⟨ol, os, nl, ns, par1, h', hp, hgo, hh, hsc, hafter⟩ := hrt.2.2 pre [] n hpre (.inl rfl)
            rw [List.append_nil] at hp
            have hrest : par1.s.rest = [] := by
              rcases hafter with ⟨_, hr⟩ | ⟨more, hm, _⟩
              · exact hr
              · cases hm
            have hg : par1.getLine = (none, par1.getLine.2) := by
              have := getLine_of_rest_nil par1 hrest
              rw [← this]
            obtain ⟨par3, hb, hr3⟩ := body_stage_stop fuel _ par1 _ acc ol nl os ns h' hp hgo hh hg
            refine ⟨[h'], par3, ?_, ⟨hsc, trivial⟩, by rw [hr3, hrest]⟩
            simpa [bodyTexts] using hb
        | cons ts2 tss =>
          cases hs with
          | nil => exact hf'.elim
          | cons h2 hs =>
            obtain ⟨r2, rest2, hts2⟩ := hf'.1.2.1
            obtain ⟨rest2', hhead⟩ := bodyTexts_head r2 rest2 tss
            rw [← hts2] at hhead
            have hstream : bodyTexts (ts :: ts2 :: tss)
                = ts ++ lfLine starsText :: bodyTexts (ts2 :: tss) := rfl
            rw [hstream]
            obtain ⟨ol, os, nl, ns, par1, h', hp, hgo, hh, hsc, hafter⟩ :=
              hrt.2.2 pre (lfLine starsText :: bodyTexts (ts2 :: tss)) n hpre (.inr ⟨_, rfl⟩)
            rcases hafter with ⟨hm, _⟩ | ⟨more, hm, n', hpar⟩
            · cases hm
            · obtain ⟨hmore⟩ := List.cons.inj hm
              rename_i hmore'
              subst hmore'
              rcases hpar with rfl | rfl
              · -- the separator is still to be read
                have hg := getLine_lf starsText (bodyTexts (ts2 :: tss)) n'
                have hc := body_stage_continue fuel _ _ _ acc ol nl os ns h' _ hp hgo hh hg (.inl startsWith_stars_stars15)
                obtain ⟨hs', par', hb, hfs, hr⟩ := ih (h2 :: hs) hf' (by simp) fuel [lfLine starsText] (n' + 1)
                  (acc ++ [h']) (by simp only [List.length_cons] at hfuel ⊢; omega) (.inr rfl)
                refine ⟨h' :: hs', par', ?_, ⟨hsc, hfs⟩, hr⟩
                rw [hc]
                rw [List.append_assoc, List.singleton_append] at hb
                exact hb
              · -- the separator was consumed with the hunk
                rw [hhead] at hp ⊢
                have hg := getLine_lf (oldRangeText r2) rest2' n'
                have hc := body_stage_continue fuel _ _ _ acc ol nl os ns h' _ hp hgo hh hg
                  (.inr ⟨startsWith_oldRangeText r2, endsWith_oldRangeText r2⟩)
                obtain ⟨hs', par', hb, hfs, hr⟩ := ih (h2 :: hs) hf' (by simp) fuel [] (n' + 1)
                  (acc ++ [h']) (by simp only [List.length_cons] at hfuel ⊢; omega) (.inl rfl)
                refine ⟨h' :: hs', par', ?_, ⟨hsc, hfs⟩, hr⟩
                rw [hc]
                rw [hhead, List.append_assoc, List.singleton_append] at hb
                exact hb

/-- **the context round trip, exact** (given the number round trip): the hunks of a context format reject file are read back
    as hunks with the same old side and the same new side, line by line — contents and the terminator class (LF, CR LF,
    none) of every line — and the same ranges.  (The interleaving of '-' and '+' lines is not in the text of a context
    diff.)  Statement strengthened with the model: the writer now keeps CR LF; before, the sides came back with the LF/CRLF
    class forgotten (`sameChange`, see `context_roundtrip_of`). -/
theorem context_roundtrip_exact_cr_of (NR : NumberRoundtrip) (hs : List Hunk) (hne : hs ≠ [])
    (hw : ∀ h ∈ hs, Unified.writableCR h = true) (bytes : Bytes) (hb : ctxRejectBody hs = .ok bytes)
    (lineNo : Nat) (fuel : Nat) (hf : hs.length < fuel) :
    ∃ hs' par', parseContextBody fuel { s := { rest := splitLines bytes }, lineNo := lineNo } [] = .ok (hs', par') ∧
      hs'.length = hs.length ∧
      (∀ i (hi : i < hs.length) (hi' : i < hs'.length), sameSides hs'[i] hs[i]) ∧
      par'.s.rest = [] := by
  obtain ⟨tss, hrt, rfl⟩ := ctxRejectBody_texts NR hs hw bytes hb
  have hplain : ∀ t ∈ bodyTexts tss, PlainL t := by
    apply plain_bodyTexts
    intro ts hts
    obtain ⟨i, hi, rfl⟩ := List.getElem_of_mem hts
    exact (hrt.get i hi (by rw [← hrt.length_eq]; exact hi)).1
  rw [splitLines_unlines _ hplain]
  have htne : tss ≠ [] := by
    intro h; subst h
    cases hs with
    | nil => exact hne rfl
    | cons _ _ => exact hrt.elim
  obtain ⟨hs', par', hp, hfs, hr⟩ := parseBody_rt tss hs hrt htne fuel [] lineNo [] hf (.inl rfl)
  refine ⟨hs', par', ?_, hfs.length_eq, fun i hi hi' => hfs.get i hi' hi, hr⟩
  simpa [mkPar] using hp

/-- the exact round trip for `writable` hunks (no line ends in CR): the special case of `context_roundtrip_exact_cr_of`, which
    also covers a last line that ends in a bare CR -/
theorem context_roundtrip_exact_of (NR : NumberRoundtrip) (hs : List Hunk) (hne : hs ≠ [])
    (hw : ∀ h ∈ hs, h.writable = true) (bytes : Bytes) (hb : ctxRejectBody hs = .ok bytes)
    (lineNo : Nat) (fuel : Nat) (hf : hs.length < fuel) :
    ∃ hs' par', parseContextBody fuel { s := { rest := splitLines bytes }, lineNo := lineNo } [] = .ok (hs', par') ∧
      hs'.length = hs.length ∧
      (∀ i (hi : i < hs.length) (hi' : i < hs'.length), sameSides hs'[i] hs[i]) ∧
      par'.s.rest = [] :=
  context_roundtrip_exact_cr_of NR hs hne (fun h hh => Unified.writableCR_of_writable (hw h hh)) bytes hb lineNo fuel hf

/-- the context round trip in its old form (LF/CRLF class forgotten): a consequence of the exact one -/
theorem context_roundtrip_of (NR : NumberRoundtrip) (hs : List Hunk) (hne : hs ≠ [])
    (hw : ∀ h ∈ hs, h.writable = true) (bytes : Bytes) (hb : ctxRejectBody hs = .ok bytes)
    (lineNo : Nat) (fuel : Nat) (hf : hs.length < fuel) :
    ∃ hs' par', parseContextBody fuel { s := { rest := splitLines bytes }, lineNo := lineNo } [] = .ok (hs', par') ∧
      hs'.length = hs.length ∧
      (∀ i (hi : i < hs.length) (hi' : i < hs'.length), sameChange hs'[i] hs[i]) ∧
      par'.s.rest = [] := by
  obtain ⟨hs', par', h1, h2, h3, h4⟩ := context_roundtrip_exact_of NR hs hne hw bytes hb lineNo fuel hf
  exact ⟨hs', par', h1, h2, fun i hi hi' => (h3 i hi hi').sameChange, h4⟩

/-! ### the final newline of a context diff can matter -/

/-- `*** 1 ****` / `- a` / `--- 1 ----` / `*** 2 ****`: a hunk whose new half is omitted, followed by a dangling range line
    that ends in `nl` -/
def danglingRange (nl : NewLine) : List Line :=
  [⟨[42, 42, 42, 32, 49, 32, 42, 42, 42, 42], .lf⟩, ⟨[45, 32, 97], .lf⟩, ⟨[45, 45, 45, 32, 49, 32, 45, 45, 45, 45], .lf⟩,
   ⟨[42, 42, 42, 32, 50, 32, 42, 42, 42, 42], nl⟩]

theorem startsWith_lit (l : Bytes) (p : String) (bs : Bytes) (h : str p = bs) : startsWith l p = bs.isPrefixOf l := by
  unfold startsWith; rw [h]
theorem endsWith_lit (l : Bytes) (p : String) (bs : Bytes) (h : str p = bs) :
    endsWith l p = bs.reverse.isPrefixOf l.reverse := by
  unfold endsWith; rw [h]

/-- with its final newline the dangling range line is an error -/
theorem danglingRange_lf :
    (parseContextBody 6 { s := { rest := danglingRange .lf } } []).map (·.1) = .error .runtimeError := by
  simp [danglingRange, parseContextBody, parseContextHunk, ctxSkipToOldRange, Parser.getLine, PStream.getLine,
    startsWith_lit _ _ _ str_old4, endsWith_lit _ _ _ str_old5, startsWith_lit _ _ _ str_new4, endsWith_lit _ _ _ str_new5,
    startsWith_lit _ _ _ str_stars10, startsWith_lit _ _ _ str_stars15,
    List.isPrefixOf, ctxRangeText, parseContextRange, consumeLineNumber, isDigit, stringToLineNumber, i64Max, consumeStr,
    ctxParseNewRange, ctxAppendLine, ctxAppendContent, ctxCheckNoNewline, PStream.peek, BACKSLASH, SP, MINUS, PLUS, BANG,
    isToFileLine, PStream.seek, hunkFromContextParts, hunkFromContextParts.go, Except.map]

/-- without it the line is left unread and the hunk before it is accepted -/
theorem danglingRange_none :
    (parseContextBody 6 { s := { rest := danglingRange .none } } []).map (·.1)
      = .ok [⟨⟨1, 1⟩, ⟨1, 0⟩, [⟨MINUS, ⟨[97], .lf⟩⟩]⟩] := by
  simp [danglingRange, parseContextBody, parseContextHunk, ctxSkipToOldRange, Parser.getLine, PStream.getLine,
    startsWith_lit _ _ _ str_old4, endsWith_lit _ _ _ str_old5, startsWith_lit _ _ _ str_new4, endsWith_lit _ _ _ str_new5,
    startsWith_lit _ _ _ str_stars10, startsWith_lit _ _ _ str_stars15,
    List.isPrefixOf, ctxRangeText, parseContextRange, consumeLineNumber, isDigit, stringToLineNumber, i64Max, consumeStr,
    ctxParseNewRange, ctxAppendLine, ctxAppendContent, ctxCheckNoNewline, PStream.peek, BACKSLASH, SP, MINUS, PLUS, BANG,
    isToFileLine, PStream.seek, hunkFromContextParts, hunkFromContextParts.go, Except.map, CR]

end PatchModel.Context
