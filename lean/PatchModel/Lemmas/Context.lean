/-
  Lemmas/Context — the context-format reject writer (`writeHunkContext`) as a list of text lines, and the
  context body parser (`parseContextHunk`, `hunkFromContextParts`, `parseContextBody`) run on those lines
  (helper lemmas for C13, context half).
-/
import PatchModel.Spec.Diff
import PatchModel.Lemmas.Cpp
import PatchModel.Lemmas.Apply
namespace PatchModel.Context
open PatchModel

/-! ### string literals as explicit byte lists -/

theorem str_old4 : str "*** " = [42, 42, 42, 32] := by
  unfold str String.toUTF8; rw [Cpp.byteArray_toList_eq_data]; rfl
theorem str_old5 : str " ****" = [32, 42, 42, 42, 42] := by
  unfold str String.toUTF8; rw [Cpp.byteArray_toList_eq_data]; rfl
theorem str_old5nl : str " ****\n" = [32, 42, 42, 42, 42, 10] := by
  unfold str String.toUTF8; rw [Cpp.byteArray_toList_eq_data]; rfl
theorem str_new4 : str "--- " = [45, 45, 45, 32] := by
  unfold str String.toUTF8; rw [Cpp.byteArray_toList_eq_data]; rfl
theorem str_new5 : str " ----" = [32, 45, 45, 45, 45] := by
  unfold str String.toUTF8; rw [Cpp.byteArray_toList_eq_data]; rfl
theorem str_new5nl : str " ----\n" = [32, 45, 45, 45, 45, 10] := by
  unfold str String.toUTF8; rw [Cpp.byteArray_toList_eq_data]; rfl
theorem str_stars10 : str "**********" = [42, 42, 42, 42, 42, 42, 42, 42, 42, 42] := by
  unfold str String.toUTF8; rw [Cpp.byteArray_toList_eq_data]; rfl
theorem str_stars15 : str "***************" = [42, 42, 42, 42, 42, 42, 42, 42, 42, 42, 42, 42, 42, 42, 42] := by
  unfold str String.toUTF8; rw [Cpp.byteArray_toList_eq_data]; rfl
theorem str_stars15nl : str "***************\n" = [42, 42, 42, 42, 42, 42, 42, 42, 42, 42, 42, 42, 42, 42, 42, 10] := by
  unfold str String.toUTF8; rw [Cpp.byteArray_toList_eq_data]; rfl

/-- `\ No newline at end of file` -/
def markerText : Bytes :=
  [92, 32, 78, 111, 32, 110, 101, 119, 108, 105, 110, 101, 32, 97, 116, 32, 101, 110, 100, 32, 111, 102, 32, 102, 105, 108, 101]

theorem noNewlineMarker_eq : noNewlineMarker = markerText ++ [NL] := by
  unfold noNewlineMarker str String.toUTF8; rw [Cpp.byteArray_toList_eq_data]; rfl

/-- the separator line, without its terminator -/
def starsText : Bytes := [42, 42, 42, 42, 42, 42, 42, 42, 42, 42, 42, 42, 42, 42, 42]

theorem starsLine_eq : starsLine = starsText ++ [NL] := by
  unfold starsLine; rw [str_stars15nl]; rfl

/-! ### text made of NL-terminated plain lines -/

/-- a byte string that survives being written as `t LF` and read back -/
def PlainText (t : Bytes) : Prop := NL ∉ t ∧ t.getLast? ≠ some CR

def unlines (ts : List Bytes) : Bytes := ts.flatMap (· ++ [NL])

@[simp] theorem unlines_nil : unlines [] = [] := rfl
@[simp] theorem unlines_cons (t : Bytes) (ts : List Bytes) : unlines (t :: ts) = t ++ NL :: unlines ts := by
  simp [unlines]
theorem unlines_append (as bs : List Bytes) : unlines (as ++ bs) = unlines as ++ unlines bs := by
  simp [unlines]

def lfLine (c : Bytes) : Line := ⟨c, .lf⟩

theorem splitLinesGo_line (c : Bytes) (hc : NL ∉ c) (cur rest : Bytes) :
    splitLinesGo cur (c ++ NL :: rest) = mkLine (cur ++ c) :: splitLinesGo [] rest := by
  induction c generalizing cur with
  | nil => simp [splitLinesGo]
  | cons a c ih =>
    have ha : a ≠ NL := by intro h; apply hc; simp [h]
    have hc' : NL ∉ c := by intro h; apply hc; simp [h]
    simp only [List.cons_append, splitLinesGo]
    rw [if_neg (by simpa using ha), ih hc']
    simp

theorem mkLine_plain (c : Bytes) (h : c.getLast? ≠ some CR) : mkLine c = lfLine c := by
  unfold mkLine lfLine; rw [if_neg h]

theorem splitLines_unlines (ts : List Bytes) (h : ∀ t ∈ ts, PlainText t) :
    splitLines (unlines ts) = ts.map lfLine := by
  induction ts with
  | nil => simp [splitLines, splitLinesGo]
  | cons t ts ih =>
    have ht := h t (by simp)
    rw [unlines_cons, splitLines, splitLinesGo_line t ht.1, List.nil_append, mkLine_plain t ht.2]
    rw [List.map_cons]
    congr 1
    exact ih (fun t' ht' => h t' (by simp [ht']))

/-! ### the writer's output as text lines -/

def halfText (l : PatchLine) : Bytes := l.op :: SP :: l.line.content

def lastNone (ls : List PatchLine) : Bool :=
  match ls.getLast? with
  | some l => decide (l.line.newline = .none)
  | none => false

def halfTexts (ls : List PatchLine) : List Bytes :=
  ls.map halfText ++ (if lastNone ls then [markerText] else [])

def rangeEnd (r : Range) : Int := if r.count > 1 then r.start + r.count - 1 else r.start

def rangeMid (r : Range) : Bytes :=
  intDigits r.start ++ (if r.count > 1 then 44 :: intDigits (r.start + r.count - 1) else [])

def oldRangeText (r : Range) : Bytes := [42, 42, 42, 32] ++ rangeMid r ++ [32, 42, 42, 42, 42]
def newRangeText (r : Range) : Bytes := [45, 45, 45, 32] ++ rangeMid r ++ [32, 45, 45, 45, 45]

def halvesTexts (O : List PatchLine) (oR : Range) (N : List PatchLine) (nR : Range) : List Bytes :=
  oldRangeText oR :: halfTexts O ++ newRangeText nR :: halfTexts N

theorem unlines_halfTexts (ls : List PatchLine) :
    unlines (halfTexts ls) =
      (match ls.getLast? with
       | none => []
       | some last =>
         (ls.flatMap fun l => [l.op, SP] ++ l.line.content ++ [NL])
           ++ (if last.line.newline = NewLine.none then noNewlineMarker else [])) := by
  unfold halfTexts lastNone
  rw [unlines_append]
  have h1 : unlines (ls.map halfText) = ls.flatMap fun l => [l.op, SP] ++ l.line.content ++ [NL] := by
    simp [unlines, halfText, List.flatMap_map]
  cases hl : ls.getLast? with
  | none =>
    have : ls = [] := by simpa using hl
    subst this; simp
  | some last =>
    simp only [h1]
    by_cases hn : last.line.newline = NewLine.none
    · simp [hn, noNewlineMarker_eq]
    · simp [hn]

theorem writeContextHalves_eq (O : List PatchLine) (oR : Range) (N : List PatchLine) (nR : Range) :
    writeContextHalves O oR N nR = unlines (halvesTexts O oR N nR) := by
  unfold writeContextHalves halvesTexts
  conv => rhs; rw [unlines_cons, unlines_append, unlines_cons, unlines_halfTexts, unlines_halfTexts]
  simp only [str_old4, str_old5nl, str_new4, str_new5nl, oldRangeText, newRangeText, rangeMid]
  by_cases h1 : oR.count > 1 <;> by_cases h2 : nR.count > 1 <;> simp [h1, h2, NL]

end PatchModel.Context
