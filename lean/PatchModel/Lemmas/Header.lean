/-
  Lemmas/Header — the header scan (`headerStep` / `headerLoop` / `parseHeader`) over the header of a unified diff:
  `--- old`, `+++ new`, a range line, a first body line (helper lemmas for C11 / C01 at text level).

  `headerStep` tests for "first body line after a unified range line" (`firstBodyLine`) BEFORE the keyword tests:
  `headerStep_first'` needs nothing but that test, every other step lemma has its negation as a hypothesis
  (`headerStep_late`), and `parseHeader_unified'` / `headerLoop_unified` no longer exclude a first body line that starts
  with `--- ` / `+++ `.  `parseHeader_unified` / `headerStep_first` keep their old signatures (wrappers).

  D86: the test also passes for an EMPTY line if the range read from the line before has a count above 0 on both sides
  (`emptyStart`; `firstBodyLine` = `bodyStart ∨ emptyStart`, `firstBodyLine_iff` is the test as the model spells it,
  `headerStep_firstBody` the step lemma for either case).  `headerLoop_unified_e` / `parseHeader_unified_e` take
  `firstLineOk h first.content` (either case); `headerLoop_unified` / `parseHeader_unified'` are the `bodyStart` instances
  with their old signatures.  `headerStep_empty_skip`: an empty line anywhere else is skipped.

  At the end: the `Prereq: ` / `Index: ` lines (`headerStep_prereq`: strip count 0), the operation `parseHeader` returns
  (`opOf`, `parseHeader_operation`, `parseHeader_git_operation`: nothing is inferred from the ranges alone in a git
  section) and the header of a whole git section (`headerLoop_git`, `parseHeader_git_section`, `gitInferredOp`).
-/
import PatchModel.Lemmas.Inert
import PatchModel.Lemmas.Unified
import PatchModel.Lemmas.Names
import PatchModel.Lemmas.Cost
namespace PatchModel.Header
open PatchModel PatchModel.Inert

/-! ### literals -/

theorem str_old4 : str "*** " = [42, 42, 42, 32] := by
  unfold str String.toUTF8; rw [Cpp.byteArray_toList_eq_data]; rfl
theorem str_plus4 : str "+++ " = [43, 43, 43, 32] := by
  unfold str String.toUTF8; rw [Cpp.byteArray_toList_eq_data]; rfl
theorem str_new4 : str "--- " = [45, 45, 45, 32] := by
  unfold str String.toUTF8; rw [Cpp.byteArray_toList_eq_data]; rfl
theorem str_index : str "Index: " = [73, 110, 100, 101, 120, 58, 32] := by
  unfold str String.toUTF8; rw [Cpp.byteArray_toList_eq_data]; rfl
theorem str_prereq : str "Prereq: " = [80, 114, 101, 114, 101, 113, 58, 32] := by
  unfold str String.toUTF8; rw [Cpp.byteArray_toList_eq_data]; rfl
theorem str_git : str "diff --git " = [100, 105, 102, 102, 32, 45, 45, 103, 105, 116, 32] := by
  unfold str String.toUTF8; rw [Cpp.byteArray_toList_eq_data]; rfl
theorem str_plus : str "+" = [43] := by
  unfold str String.toUTF8; rw [Cpp.byteArray_toList_eq_data]; rfl
theorem str_minus : str "-" = [45] := by
  unfold str String.toUTF8; rw [Cpp.byteArray_toList_eq_data]; rfl
theorem str_sp : str " " = [32] := by
  unfold str String.toUTF8; rw [Cpp.byteArray_toList_eq_data]; rfl

/-! ### prefixes -/

/-- a line whose first byte differs from the first byte of the keyword does not start with the keyword -/
theorem startsWith_false_of_head (l : Bytes) (p : String) (c : UInt8) (bs : Bytes) (hp : str p = c :: bs)
    (hl : l.head? ≠ some c) : startsWith l p = false := by
  unfold startsWith
  rw [hp]
  cases l with
  | nil => rfl
  | cons a r =>
    have : c ≠ a := by intro h; subst h; simp at hl
    simp [List.isPrefixOf, this]

theorem startsWith_append (p : String) (r : Bytes) : startsWith (str p ++ r) p = true := by
  unfold startsWith
  rw [List.isPrefixOf_iff_prefix]; exact List.prefix_append _ r

/-- `startsWith` on a one byte keyword -/
theorem startsWith_one (l : Bytes) (p : String) (c : UInt8) (hp : str p = [c]) :
    startsWith l p = true ↔ l.head? = some c := by
  unfold startsWith
  rw [hp]
  cases l with
  | nil => simp [List.isPrefixOf]
  | cons a r =>
    simp only [List.isPrefixOf, Bool.and_true, beq_iff_eq, List.head?_cons, Option.some.injEq]
    exact eq_comm

/-- the line starts with none of the keywords of the header scan -/
structure NoKeyword (l : Bytes) : Prop where
  old4 : startsWith l "*** " = false
  plus4 : startsWith l "+++ " = false
  new4 : startsWith l "--- " = false
  index : startsWith l "Index: " = false
  prereq : startsWith l "Prereq: " = false
  git : startsWith l "diff --git " = false

/-- a line whose first byte is none of `*`, `+`, `-`, `I`, `P`, `d` (or which is empty) -/
theorem noKeyword_of_head (l : Bytes) (h42 : l.head? ≠ some 42) (h43 : l.head? ≠ some 43) (h45 : l.head? ≠ some 45)
    (h73 : l.head? ≠ some 73) (h80 : l.head? ≠ some 80) (h100 : l.head? ≠ some 100) : NoKeyword l :=
  ⟨startsWith_false_of_head l _ _ _ str_old4 h42, startsWith_false_of_head l _ _ _ str_plus4 h43,
   startsWith_false_of_head l _ _ _ str_new4 h45, startsWith_false_of_head l _ _ _ str_index h73,
   startsWith_false_of_head l _ _ _ str_prereq h80, startsWith_false_of_head l _ _ _ str_git h100⟩

/-- the first line of a hunk body: starts with ' ', '+' or '-' -/
def bodyStart (l : Bytes) : Prop := startsWith l "+" ∨ startsWith l "-" ∨ startsWith l " "

theorem bodyStart_head {l : Bytes} (h : bodyStart l) : l.head? = some 32 ∨ l.head? = some 43 ∨ l.head? = some 45 := by
  rcases h with h | h | h
  · exact Or.inr (Or.inl ((startsWith_one l _ _ str_plus).1 h))
  · exact Or.inr (Or.inr ((startsWith_one l _ _ str_minus).1 h))
  · exact Or.inl ((startsWith_one l _ _ str_sp).1 h)

/-- a line that starts with `--- ` starts with `-` … -/
theorem bodyStart_of_minus4 {l : Bytes} (h : startsWith l "--- " = true) : bodyStart l := by
  unfold startsWith at h
  rw [str_new4] at h
  cases l with
  | nil => simp [List.isPrefixOf] at h
  | cons a r =>
    simp only [List.isPrefixOf, Bool.and_eq_true, beq_iff_eq] at h
    exact Or.inr (Or.inl ((startsWith_one _ _ _ str_minus).2 (by rw [← h.1]; rfl)))

/-- … and one that starts with `+++ ` starts with `+` -/
theorem bodyStart_of_plus4 {l : Bytes} (h : startsWith l "+++ " = true) : bodyStart l := by
  unfold startsWith at h
  rw [str_plus4] at h
  cases l with
  | nil => simp [List.isPrefixOf] at h
  | cons a r =>
    simp only [List.isPrefixOf, Bool.and_eq_true, beq_iff_eq] at h
    exact Or.inl ((startsWith_one _ _ _ str_plus).2 (by rw [← h.1]; rfl))

/-- a first body line that is no `--- ` / `+++ ` line starts with none of the keywords -/
theorem noKeyword_of_bodyStart {l : Bytes} (h : bodyStart l) (hm : ¬ startsWith l "--- ") (hp : ¬ startsWith l "+++ ") :
    NoKeyword l := by
  have hh := bodyStart_head h
  refine ⟨startsWith_false_of_head l _ _ _ str_old4 ?_, by simpa using hp, by simpa using hm,
    startsWith_false_of_head l _ _ _ str_index ?_, startsWith_false_of_head l _ _ _ str_prereq ?_,
    startsWith_false_of_head l _ _ _ str_git ?_⟩ <;>
  · rcases hh with e | e | e <;> rw [e] <;> decide

/-- an EMPTY first line of a hunk body (an unchanged empty line as `diff -u --suppress-blank-empty` writes it): taken
    as such only if the range read from the line before has room for an unchanged line — a count above 0 on both sides (D86) -/
def emptyStart (st : HState) (l : Bytes) : Prop :=
  l = [] ∧ (0 : Int) < st.hunk.old.count ∧ (0 : Int) < st.hunk.new.count

/-- what the header scan asks of the first line of the first hunk, `h` being the range read from the line before it -/
def firstLineOk (h : Hunk) (l : Bytes) : Prop :=
  bodyStart l ∨ (l = [] ∧ (0 : Int) < h.old.count ∧ (0 : Int) < h.new.count)

/-! ### one step of the header scan -/

/-- the state at the start of an iteration: one more line, "looks like" marker reset -/
abbrev entered (st : HState) : HState := { st with lines := st.lines + 1, thisLooks := .unknown }

/-- the test `headerStep` makes FIRST: the line before looked like a unified range, this line starts like a line of a
    hunk body, and the format is unknown or unified -/
def firstBodyLine (st : HState) (l : Bytes) : Prop :=
  (st.patch.format = .unknown ∨ st.patch.format = .unified) ∧ st.thisLooks = .unified ∧ (bodyStart l ∨ emptyStart st l)

/-- the test as `headerStep` spells it -/
theorem firstBodyLine_iff (st : HState) (l : Bytes) :
    firstBodyLine st l ↔
      ((st.patch.format = .unknown ∨ st.patch.format = .unified) ∧ st.thisLooks = .unified ∧
        (startsWith l "+" ∨ startsWith l "-" ∨ startsWith l " " ∨
          (l = [] ∧ (0 : Int) < st.hunk.old.count ∧ (0 : Int) < st.hunk.new.count))) := by
  unfold firstBodyLine bodyStart emptyStart
  simp only [or_assoc]

/-- the step lemma for any line that passes the test -/
theorem headerStep_firstBody (st : HState) (l : Bytes) (strip : Int) (h : firstBodyLine st l) :
    headerStep st l strip =
      .ok ({ entered st with
              patch := { st.patch with oldPath := st.patch.newPath, newPath := st.patch.oldPath,
                                       oldTime := st.patch.newTime, newTime := st.patch.oldTime, format := .unified },
              foundFirstHunk := true }, false) := by
  rw [firstBodyLine_iff] at h
  rw [Cost.headerStep_eq]
  simp only [if_pos h]

/-- **the line after a unified range line that starts like a body line** — whatever else it looks like (`--- x`, `+++ y`,
    in or outside a git section): the scan stops, the format is unified, the two names / time stamps are swapped back and
    the first hunk is marked as found -/
theorem headerStep_first' (st : HState) (l : Bytes) (strip : Int)
    (hf : st.patch.format = .unknown ∨ st.patch.format = .unified)
    (hl : st.thisLooks = .unified) (hb : bodyStart l) :
    headerStep st l strip =
      .ok ({ entered st with
              patch := { st.patch with oldPath := st.patch.newPath, newPath := st.patch.oldPath,
                                       oldTime := st.patch.newTime, newTime := st.patch.oldTime, format := .unified },
              foundFirstHunk := true }, false) := by
  exact headerStep_firstBody st l strip ⟨hf, hl, Or.inl hb⟩

/-- when that test fails `headerStep` goes on with the keyword tests -/
theorem headerStep_late (st : HState) (l : Bytes) (strip : Int) (hn : ¬ firstBodyLine st l) :
    headerStep st l strip =
      (let last := st.thisLooks
       let st := entered st
       let p := st.patch
       match (match (if last != .context then consumeStr (str "*** ") l else none) with
              | some r => some r
              | none => consumeStr (str "+++ ") l) with
       | some r =>
         (parseFileLine r strip).map fun res =>
           let (pa, ti) := assignFileLine res p.oldTime
           ({ st with patch := { p with oldPath := pa, oldTime := ti } }, true)
       | none =>
       match consumeStr (str "--- ") l with
       | some r =>
         (parseFileLine r strip).map fun res =>
           let (pa, ti) := assignFileLine res p.newTime
           ({ st with patch := { p with newPath := pa, newTime := ti } }, true)
       | none =>
       match consumeStr (str "Index: ") l with
       | some r => (parseFileLine r strip).map fun res => ({ st with patch := { p with indexPath := res.1 } }, true)
       | none =>
       match consumeStr (str "Prereq: ") l with
       | some r => .ok ({ st with patch := { p with prerequisite := r.takeWhile fun c => c != SP && c != TAB } }, true)
       | none =>
       match consumeStr (str "diff --git ") l with
       | some r =>
         if st.isGit then .ok ({ st with ltfh := st.lines, shouldParseBody := false }, false)
         else (parseGitHeaderName r strip).map fun name =>
           ({ st with patch := { p with oldPath := name, newPath := name, format := .unified }, isGit := true,
                      ltfh := st.lines + 1 }, true)
       | none => Cost.hdrTail last st l strip) := by
  rw [firstBodyLine_iff] at hn
  rw [Cost.headerStep_eq]
  simp only [if_neg hn]
  rfl

theorem not_firstBodyLine_of_looks {st : HState} {l : Bytes} (h : st.thisLooks ≠ .unified) : ¬ firstBodyLine st l :=
  fun hh => h hh.2.1

/-- (hypothesis `h0` added with the model change D86: an empty line may be the first line of a hunk body) -/
theorem not_firstBodyLine_of_head {st : HState} {l : Bytes} (h0 : l.head? ≠ none)
    (h32 : l.head? ≠ some 32) (h43 : l.head? ≠ some 43) (h45 : l.head? ≠ some 45) : ¬ firstBodyLine st l := by
  intro hh
  rcases hh.2.2 with hb | he
  · rcases bodyStart_head hb with e | e | e
    · exact h32 e
    · exact h43 e
    · exact h45 e
  · exact h0 (by rw [he.1]; rfl)

/-- a line on which a unified range is read is not empty -/
theorem ne_nil_of_parseUnifiedRange {hk h' : Hunk} {l : Bytes} (hp : parseUnifiedRange hk l = (true, h')) : l ≠ [] := by
  intro e
  subst e
  rw [parseUnifiedRange_none hk [] (startsWith_false_of_head _ _ _ _ Unified.str_atat_minus (by simp))] at hp
  simp at hp

/-- a line on which a unified range is read is the first body line only if it starts like one -/
theorem not_firstBodyLine_of_range {st : HState} {l : Bytes} {hk h' : Hunk} (hp : parseUnifiedRange hk l = (true, h'))
    (hb : ¬ (st.thisLooks = .unified ∧ bodyStart l)) : ¬ firstBodyLine st l := by
  intro hh
  rcases hh.2.2 with h | h
  · exact hb ⟨hh.2.1, h⟩
  · exact ne_nil_of_parseUnifiedRange hp h.1

/-- a `--- name` line (not directly after a unified range line: there it is the removal of a line `-- name`) is stored as
    the NEW name (the quirk of `parse_patch_header`; swapped back on detection) -/
theorem headerStep_minus (st : HState) (r : Bytes) (strip : Int) (hl : ¬ firstBodyLine st (str "--- " ++ r)) :
    headerStep st (str "--- " ++ r) strip =
      (parseFileLine r strip).map fun res =>
        ({ entered st with patch := { st.patch with newPath := res.1,
                                                     newTime := (match res.2 with | some t => t | none => st.patch.newTime) } }, true) := by
  have h1 : consumeStr (str "*** ") (str "--- " ++ r) = none :=
    consumeStr_none_of_startsWith (startsWith_false_of_head _ _ _ _ str_old4 (by rw [str_new4]; simp))
  have h2 : consumeStr (str "+++ ") (str "--- " ++ r) = none :=
    consumeStr_none_of_startsWith (startsWith_false_of_head _ _ _ _ str_plus4 (by rw [str_new4]; simp))
  rw [headerStep_late _ _ _ hl]
  simp only [h1, h2, ite_self, Unified.consumeStr_append]
  rfl

/-- `headerStep_minus` as it was stated before the reordering of `headerStep` (without `hl`) is FALSE now, and so is
    `headerLoop_unified` for a start state with `thisLooks = .unified`: directly after a line that looked like a unified
    range, `--- a` is the first line of the hunk body (the scan stops, nothing is stored as a name) -/
example : ¬ ∀ (st : HState) (r : Bytes) (strip : Int),
    headerStep st (str "--- " ++ r) strip =
      (parseFileLine r strip).map fun res =>
        ({ entered st with patch := { st.patch with newPath := res.1,
                                                     newTime := (match res.2 with | some t => t | none => st.patch.newTime) } }, true) := by
  intro h
  have h1 := h { par := { s := { rest := [] } }, patch := {}, thisLooks := .unified } [97] 0
  rw [headerStep_first' _ _ _ (Or.inl rfl) rfl (bodyStart_of_minus4 (startsWith_append _ _))] at h1
  cases hx : parseFileLine [97] 0 <;> rw [hx] at h1 <;> simp [Except.map] at h1

/-- a `+++ name` line (not directly after a unified range line) is stored as the OLD name -/
theorem headerStep_plus (st : HState) (r : Bytes) (strip : Int) (hl : ¬ firstBodyLine st (str "+++ " ++ r)) :
    headerStep st (str "+++ " ++ r) strip =
      (parseFileLine r strip).map fun res =>
        ({ entered st with patch := { st.patch with oldPath := res.1,
                                                     oldTime := (match res.2 with | some t => t | none => st.patch.oldTime) } }, true) := by
  have h1 : consumeStr (str "*** ") (str "+++ " ++ r) = none :=
    consumeStr_none_of_startsWith (startsWith_false_of_head _ _ _ _ str_old4 (by rw [str_plus4]; simp))
  rw [headerStep_late _ _ _ hl]
  simp only [h1, ite_self, Unified.consumeStr_append]
  rfl

/-- a line without keyword which is not the first body line goes to the tail of `headerStep` -/
theorem headerStep_tail (st : HState) (l : Bytes) (strip : Int) (f : NoKeyword l) (hn : ¬ firstBodyLine st l) :
    headerStep st l strip = Cost.hdrTail st.thisLooks (entered st) l strip := by
  rw [headerStep_late _ _ _ hn]
  simp only [consumeStr_none_of_startsWith f.old4, consumeStr_none_of_startsWith f.plus4,
    consumeStr_none_of_startsWith f.new4, consumeStr_none_of_startsWith f.index,
    consumeStr_none_of_startsWith f.prereq, consumeStr_none_of_startsWith f.git, ite_self]

/-- a unified range line outside a git section, before a format is known: remembered as "looks unified" -/
theorem headerStep_range (st : HState) (l : Bytes) (strip : Int) (f : NoKeyword l) (hg : st.isGit = false)
    (hf : st.patch.format = .unknown ∨ st.patch.format = .unified) (h' : Hunk)
    (hb : ¬ (st.thisLooks = .unified ∧ bodyStart l))
    (hp : parseUnifiedRange st.hunk l = (true, h')) :
    headerStep st l strip =
      .ok ({ entered st with hunk := h', thisLooks := .unified, ltfh := st.lines + 1 }, true) := by
  rw [headerStep_tail st l strip f (not_firstBodyLine_of_range hp hb)]
  unfold Cost.hdrTail Cost.hdrUnified
  simp only [hg, hf, hp, if_true, if_false, Bool.false_eq_true]

/-- `headerStep_first'` with the hypotheses that were needed while the test came after the keyword tests (kept for
    callers that pass them) -/
theorem headerStep_first (st : HState) (l : Bytes) (strip : Int) (_f : NoKeyword l) (_hg : st.isGit = false)
    (hf : st.patch.format = .unknown ∨ st.patch.format = .unified)
    (hl : st.thisLooks = .unified) (hb : bodyStart l) :
    headerStep st l strip =
      .ok ({ entered st with
              patch := { st.patch with oldPath := st.patch.newPath, newPath := st.patch.oldPath,
                                       oldTime := st.patch.newTime, newTime := st.patch.oldTime, format := .unified },
              foundFirstHunk := true }, false) :=
  headerStep_first' st l strip hf hl hb

/-! ### the header loop over the header of a unified diff -/

theorem rangeText_head (h : Hunk) : (Unified.rangeText h).head? = some 64 := by
  unfold Unified.rangeText
  rw [Unified.str_atat_minus]
  simp

theorem noKeyword_rangeText (h : Hunk) : NoKeyword (Unified.rangeText h) := by
  have := rangeText_head h
  apply noKeyword_of_head <;> rw [this] <;> decide

theorem not_bodyStart_rangeText (h : Hunk) : ¬ bodyStart (Unified.rangeText h) := by
  intro hb
  have := bodyStart_head hb
  rw [rangeText_head] at this
  revert this; decide

theorem headerLoop_step (strip : Int) (fuel : Nat) (st st' : HState) (l : Line) (r : List Line)
    (heof : st.par.s.eof = false) (hbad : st.par.s.bad = false) (hrest : st.par.s.rest = l :: r) (hterm : l.newline ≠ .none)
    (c : Bool)
    (hs : headerStep { st with par := { s := { st.par.s with rest := r }, lineNo := st.par.lineNo + 1 } } l.content strip = .ok (st', c)) :
    headerLoop strip (fuel + 1) st = if c then headerLoop strip fuel st' else .ok st' := by
  rw [headerLoop, getLine_cons st.par l r heof hbad hrest hterm]
  simp only [hs]
  cases c <;> rfl

/-- a name a diff tool writes unquoted: not empty, no TAB, does not start with a quote -/
def plainName (n : Bytes) : Prop := n ≠ [] ∧ TAB ∉ n ∧ n.head? ≠ some DQUOTE

/-- the name a header line yields under `-p strip` -/
def stripped (n : Bytes) (strip : Int) : Bytes := if n = devNull then n else stripPath n strip

/-- bounds under which the range line of `h` is read back -/
def rangeOk (h : Hunk) : Prop :=
  0 ≤ h.old.start ∧ h.old.start ≤ i64Max / 4 ∧ 0 ≤ h.old.count ∧ h.old.count ≤ i64Max / 4 ∧
  0 ≤ h.new.start ∧ h.new.start ≤ i64Max / 4 ∧ 0 ≤ h.new.count ∧ h.new.count ≤ i64Max / 4

/-- the first line of the first hunk may also be EMPTY, if both counts of the range are above 0 (`firstLineOk`, D86) -/
theorem headerLoop_unified_e (strip : Int) (st : HState) (old new oldt newt : Bytes) (h : Hunk) (first : Line)
    (more : List Line) (fuel : Nat)
    (hold : plainName old) (hnew : plainName new) (hot : oldt ≠ []) (hnt : newt ≠ []) (hr : rangeOk h)
    (hb : firstLineOk h first.content)
    (hterm : first.newline ≠ .none)
    (hg : st.isGit = false) (hf : st.patch.format = .unknown ∨ st.patch.format = .unified)
    (hlooks : st.thisLooks ≠ .unified)
    (heof : st.par.s.eof = false) (hbad : st.par.s.bad = false)
    (hrest : st.par.s.rest = ⟨str "--- " ++ old ++ [TAB] ++ oldt, .lf⟩ :: ⟨str "+++ " ++ new ++ [TAB] ++ newt, .lf⟩ ::
                               ⟨Unified.rangeText h, .lf⟩ :: first :: more) :
    headerLoop strip (fuel + 4) st =
      .ok { st with par := { s := { st.par.s with rest := more }, lineNo := st.par.lineNo + 4 },
                    patch := { st.patch with format := .unified, oldPath := stripped old strip, newPath := stripped new strip,
                                             oldTime := oldt, newTime := newt },
                    lines := st.lines + 4, thisLooks := .unknown,
                    hunk := { st.hunk with old := h.old, new := h.new }, ltfh := st.lines + 3,
                    foundFirstHunk := true } := by
  obtain ⟨⟨⟨r0, e0, b0⟩, n0⟩, p, tl, li, g, sb, hk, lt⟩ := st
  simp only at hg hf heof hbad hrest hlooks
  subst hg heof hbad hrest
  have hfl1 := Names.file_line_plain old oldt strip hold.1 hold.2.2 hold.2.1
  have hfl2 := Names.file_line_plain new newt strip hnew.1 hnew.2.2 hnew.2.1
  simp only [hot, hnt, if_false] at hfl1 hfl2
  obtain ⟨h1, h2, h3, h4, h5, h6, h7, h8⟩ := hr
  have hrng := fun h0 => Unified.unified_range_roundtrip h h0 h1 h3 h5 h7 h2 h4 h6 h8
  -- line 1
  rw [show fuel + 4 = (fuel + 3) + 1 from rfl,
    headerLoop_step strip _ _ _ ⟨_, .lf⟩ _ rfl rfl rfl (by simp) true (by
      simp only []
      rw [show str "--- " ++ old ++ [TAB] ++ oldt = str "--- " ++ (old ++ TAB :: oldt) by simp,
        headerStep_minus _ _ _ (not_firstBodyLine_of_looks hlooks), hfl1]
      rfl)]
  simp only [if_true]
  -- line 2
  rw [show fuel + 3 = (fuel + 2) + 1 from rfl,
    headerLoop_step strip _ _ _ ⟨_, .lf⟩ _ rfl rfl rfl (by simp) true (by
      simp only []
      rw [show str "+++ " ++ new ++ [TAB] ++ newt = str "+++ " ++ (new ++ TAB :: newt) by simp,
        headerStep_plus _ _ _ (not_firstBodyLine_of_looks (by simp)), hfl2]
      rfl)]
  simp only [if_true]
  -- line 3
  rw [show fuel + 2 = (fuel + 1) + 1 from rfl,
    headerLoop_step strip _ _ _ ⟨_, .lf⟩ _ rfl rfl rfl (by simp) true
      (headerStep_range _ _ strip (noKeyword_rangeText h) rfl hf _
        (fun hh => not_bodyStart_rangeText h hh.2) (hrng _))]
  simp only [if_true]
  -- line 4
  rw [headerLoop_step strip _ _ _ first _ rfl rfl rfl hterm false
      (by exact headerStep_firstBody _ _ strip ⟨hf, rfl, hb⟩)]
  simp only [Bool.false_eq_true, if_false, stripped]

theorem headerLoop_unified (strip : Int) (st : HState) (old new oldt newt : Bytes) (h : Hunk) (first : Line)
    (more : List Line) (fuel : Nat)
    (hold : plainName old) (hnew : plainName new) (hot : oldt ≠ []) (hnt : newt ≠ []) (hr : rangeOk h)
    (hb : bodyStart first.content)
    (hterm : first.newline ≠ .none)
    (hg : st.isGit = false) (hf : st.patch.format = .unknown ∨ st.patch.format = .unified)
    (hlooks : st.thisLooks ≠ .unified)
    (heof : st.par.s.eof = false) (hbad : st.par.s.bad = false)
    (hrest : st.par.s.rest = ⟨str "--- " ++ old ++ [TAB] ++ oldt, .lf⟩ :: ⟨str "+++ " ++ new ++ [TAB] ++ newt, .lf⟩ ::
                               ⟨Unified.rangeText h, .lf⟩ :: first :: more) :
    headerLoop strip (fuel + 4) st =
      .ok { st with par := { s := { st.par.s with rest := more }, lineNo := st.par.lineNo + 4 },
                    patch := { st.patch with format := .unified, oldPath := stripped old strip, newPath := stripped new strip,
                                             oldTime := oldt, newTime := newt },
                    lines := st.lines + 4, thisLooks := .unknown,
                    hunk := { st.hunk with old := h.old, new := h.new }, ltfh := st.lines + 3,
                    foundFirstHunk := true } :=
  headerLoop_unified_e strip st old new oldt newt h first more fuel hold hnew hot hnt hr (Or.inl hb) hterm hg hf hlooks
    heof hbad hrest

/-! ### `parseHeader` on (filler +) the header of a unified diff -/

theorem skipLines_terminated (ls : List Line) (rest : List Line) (par : Parser)
    (heof : par.s.eof = false) (hbad : par.s.bad = false) (hrest : par.s.rest = ls ++ rest)
    (hterm : ∀ l ∈ ls, l.newline ≠ .none) :
    skipLines ls.length par = .ok { s := { par.s with rest := rest }, lineNo := par.lineNo + ls.length } := by
  induction ls generalizing par with
  | nil =>
    obtain ⟨⟨r0, e0, b0⟩, n0⟩ := par
    simp only [List.nil_append] at hrest
    subst hrest
    rfl
  | cons l ls ih =>
    rw [List.length_cons, skipLines, getLine_cons par l (ls ++ rest) heof hbad (by simpa using hrest) (hterm l List.mem_cons_self)]
    simp only []
    rw [ih { s := { par.s with rest := ls ++ rest }, lineNo := par.lineNo + 1 } heof hbad rfl
      (fun x hx => hterm x (List.mem_cons_of_mem _ hx))]
    simp only [Except.ok.injEq, Parser.mk.injEq, true_and]
    omega

/-- the operation the header scan infers from the first range -/
def inferredOp (h : Hunk) : Operation :=
  if h.new.start = 0 then .delete else if h.old.start = 0 then .add else .change

/-- **the header of a unified diff (after inert filler) is read back**, whatever the first line of the first hunk looks
    like beyond its first byte — `--- x` (the removal of `-- x`) and `+++ y` included -/
theorem parseHeader_unified_e (strip : Int) (par : Parser) (pt : Patch) (filler : List Line)
    (old new oldt newt : Bytes) (h : Hunk) (first : Line) (more : List Line)
    (hin : ∀ l ∈ filler, inertLine l.content = true) (hft : ∀ l ∈ filler, l.newline ≠ .none)
    (hold : plainName old) (hnew : plainName new) (hot : oldt ≠ []) (hnt : newt ≠ []) (hr : rangeOk h)
    (hb : firstLineOk h first.content)
    (hterm : first.newline ≠ .none)
    (hf : pt.format = .unknown ∨ pt.format = .unified) (hop : pt.operation = .change)
    (heof : par.s.eof = false) (hbad : par.s.bad = false)
    (hrest : par.s.rest = filler ++ ⟨str "--- " ++ old ++ [TAB] ++ oldt, .lf⟩ :: ⟨str "+++ " ++ new ++ [TAB] ++ newt, .lf⟩ ::
                               ⟨Unified.rangeText h, .lf⟩ :: first :: more) :
    parseHeader par pt strip =
      .ok (true,
           { pt with format := .unified, operation := inferredOp h, oldPath := stripped old strip,
                     newPath := stripped new strip, oldTime := oldt, newTime := newt },
           { linesTillFirstHunk := filler.length + 3, format := .unified },
           { s := { rest := ⟨Unified.rangeText h, .lf⟩ :: first :: more, eof := false, bad := false },
             lineNo := par.lineNo + (filler.length + 2) }) := by
  generalize hT : (⟨str "--- " ++ old ++ [TAB] ++ oldt, .lf⟩ :: ⟨str "+++ " ++ new ++ [TAB] ++ newt, .lf⟩ ::
                               ⟨Unified.rangeText h, .lf⟩ :: first :: more : List Line) = T at hrest
  have hskip := headerLoop_skip strip filler { par := par, patch := pt } (by simpa [inertFor] using hin) hft
    (Or.inr calm_unknown) heof hbad T hrest (more.length + 2 + 4)
  have hloop := headerLoop_unified_e strip
    (advance { par := par, patch := pt } T filler.length (if filler = [] then ({ par := par, patch := pt } : HState).thisLooks else .unknown))
    old new oldt newt h first more (more.length + 2) hold hnew hot hnt hr hb hterm rfl hf
    (by simp only [advance]; split <;> simp) heof hbad hT.symm
  have hlen : par.s.rest.length + 2 = (more.length + 2 + 4) + filler.length := by
    rw [hrest, ← hT]; simp only [List.length_append, List.length_cons]; omega
  unfold parseHeader
  rw [hlen, hskip, hloop]
  simp only [advance, PStream.clear, PStream.seek, Bool.not_true, Bool.false_eq_true, if_false, hop, if_true]
  have hsk := skipLines_terminated
    (filler ++ [⟨str "--- " ++ old ++ [TAB] ++ oldt, .lf⟩, ⟨str "+++ " ++ new ++ [TAB] ++ newt, .lf⟩])
    (⟨Unified.rangeText h, .lf⟩ :: first :: more) { s := { rest := par.s.rest }, lineNo := par.lineNo } rfl rfl
    (by rw [hrest, ← hT]; simp)
    (by
      intro l hl
      rcases List.mem_append.1 hl with hl | hl
      · exact hft l hl
      · simp only [List.mem_cons, List.not_mem_nil, or_false] at hl
        rcases hl with rfl | rfl <;> simp)
  have e : 0 + filler.length + 3 - 1 =
      (filler ++ [(⟨str "--- " ++ old ++ [TAB] ++ oldt, .lf⟩ : Line), ⟨str "+++ " ++ new ++ [TAB] ++ newt, .lf⟩]).length := by
    simp only [List.length_append, List.length_cons, List.length_nil]; omega
  rw [e, hsk]
  simp only [List.length_append, List.length_cons, List.length_nil, Nat.zero_add, inferredOp, Bool.not_false, true_or,
    and_true]
  split
  · rfl
  · split <;> rfl

/-- `parseHeader_unified_e` for a first body line that starts with ' ', '+' or '-' (the statement before the model change D86) -/
theorem parseHeader_unified' (strip : Int) (par : Parser) (pt : Patch) (filler : List Line)
    (old new oldt newt : Bytes) (h : Hunk) (first : Line) (more : List Line)
    (hin : ∀ l ∈ filler, inertLine l.content = true) (hft : ∀ l ∈ filler, l.newline ≠ .none)
    (hold : plainName old) (hnew : plainName new) (hot : oldt ≠ []) (hnt : newt ≠ []) (hr : rangeOk h)
    (hb : bodyStart first.content)
    (hterm : first.newline ≠ .none)
    (hf : pt.format = .unknown ∨ pt.format = .unified) (hop : pt.operation = .change)
    (heof : par.s.eof = false) (hbad : par.s.bad = false)
    (hrest : par.s.rest = filler ++ ⟨str "--- " ++ old ++ [TAB] ++ oldt, .lf⟩ :: ⟨str "+++ " ++ new ++ [TAB] ++ newt, .lf⟩ ::
                               ⟨Unified.rangeText h, .lf⟩ :: first :: more) :
    parseHeader par pt strip =
      .ok (true,
           { pt with format := .unified, operation := inferredOp h, oldPath := stripped old strip,
                     newPath := stripped new strip, oldTime := oldt, newTime := newt },
           { linesTillFirstHunk := filler.length + 3, format := .unified },
           { s := { rest := ⟨Unified.rangeText h, .lf⟩ :: first :: more, eof := false, bad := false },
             lineNo := par.lineNo + (filler.length + 2) }) :=
  parseHeader_unified_e strip par pt filler old new oldt newt h first more hin hft hold hnew hot hnt hr (Or.inl hb) hterm hf hop
    heof hbad hrest

/-- `parseHeader_unified'` with the two hypotheses on the first body line that were needed while a `--- ` / `+++ ` line
    after the range line was taken for a file header (kept, with the old signature, for callers that pass them) -/
theorem parseHeader_unified (strip : Int) (par : Parser) (pt : Patch) (filler : List Line)
    (old new oldt newt : Bytes) (h : Hunk) (first : Line) (more : List Line)
    (hin : ∀ l ∈ filler, inertLine l.content = true) (hft : ∀ l ∈ filler, l.newline ≠ .none)
    (hold : plainName old) (hnew : plainName new) (hot : oldt ≠ []) (hnt : newt ≠ []) (hr : rangeOk h)
    (hb : bodyStart first.content) (_hm : ¬ startsWith first.content "--- ") (_hp : ¬ startsWith first.content "+++ ")
    (hterm : first.newline ≠ .none)
    (hf : pt.format = .unknown ∨ pt.format = .unified) (hop : pt.operation = .change)
    (heof : par.s.eof = false) (hbad : par.s.bad = false)
    (hrest : par.s.rest = filler ++ ⟨str "--- " ++ old ++ [TAB] ++ oldt, .lf⟩ :: ⟨str "+++ " ++ new ++ [TAB] ++ newt, .lf⟩ ::
                               ⟨Unified.rangeText h, .lf⟩ :: first :: more) :
    parseHeader par pt strip =
      .ok (true,
           { pt with format := .unified, operation := inferredOp h, oldPath := stripped old strip,
                     newPath := stripped new strip, oldTime := oldt, newTime := newt },
           { linesTillFirstHunk := filler.length + 3, format := .unified },
           { s := { rest := ⟨Unified.rangeText h, .lf⟩ :: first :: more, eof := false, bad := false },
             lineNo := par.lineNo + (filler.length + 2) }) :=
  parseHeader_unified' strip par pt filler old new oldt newt h first more hin hft hold hnew hot hnt hr hb hterm hf hop
    heof hbad hrest

/-! ### a section that starts with a `diff --git` line -/

/-- the first `diff --git` line of a section: the scan enters git mode, both names are the name on that line, and the line
    itself belongs to the header (first-hunk line = the line after it) -/
theorem headerStep_git_first (st : HState) (r : Bytes) (strip : Int) (hg : st.isGit = false) :
    headerStep st (str "diff --git " ++ r) strip =
      (parseGitHeaderName r strip).map fun name =>
        ({ entered st with patch := { st.patch with oldPath := name, newPath := name, format := .unified },
                           isGit := true, ltfh := st.lines + 2 }, true) := by
  have hd : (str "diff --git " ++ r).head? = some 100 := by rw [str_git]; rfl
  have h1 : consumeStr (str "*** ") (str "diff --git " ++ r) = none :=
    consumeStr_none_of_startsWith (startsWith_false_of_head _ _ _ _ str_old4 (by rw [hd]; decide))
  have h2 : consumeStr (str "+++ ") (str "diff --git " ++ r) = none :=
    consumeStr_none_of_startsWith (startsWith_false_of_head _ _ _ _ str_plus4 (by rw [hd]; decide))
  have h3 : consumeStr (str "--- ") (str "diff --git " ++ r) = none :=
    consumeStr_none_of_startsWith (startsWith_false_of_head _ _ _ _ str_new4 (by rw [hd]; decide))
  have h4 : consumeStr (str "Index: ") (str "diff --git " ++ r) = none :=
    consumeStr_none_of_startsWith (startsWith_false_of_head _ _ _ _ str_index (by rw [hd]; decide))
  have h5 : consumeStr (str "Prereq: ") (str "diff --git " ++ r) = none :=
    consumeStr_none_of_startsWith (startsWith_false_of_head _ _ _ _ str_prereq (by rw [hd]; decide))
  rw [headerStep_late _ _ _ (not_firstBodyLine_of_head (by rw [hd]; decide) (by rw [hd]; decide) (by rw [hd]; decide) (by rw [hd]; decide))]
  simp only [h1, h2, h3, h4, h5, ite_self, Unified.consumeStr_append, hg, Bool.false_eq_true, if_false]

/-- (statement changed with the model, D85: the last line of a text that ends in a bare CR is handed out without that CR) -/
theorem getLine_first (par : Parser) (l : Line) (r : List Line) (heof : par.s.eof = false) (hbad : par.s.bad = false)
    (hrest : par.s.rest = l :: r) : ∃ l' par1, par.getLine = (some l', par1) ∧
      (l'.content = l.content ∨ l.content = l'.content ++ [CR]) := by
  unfold Parser.getLine PStream.getLine
  by_cases hn : l.newline = .none
  · by_cases hcr : l.content.getLast? = some CR
    · refine ⟨⟨l.content.dropLast, .crlf⟩, { s := { par.s with rest := r, eof := true }, lineNo := par.lineNo + 1 }, ?_, Or.inr ?_⟩
      · simp [heof, hbad, hrest, hn, hcr]
      · rcases List.eq_nil_or_concat l.content with h0 | ⟨d, b, h0⟩
        · rw [h0] at hcr; cases hcr
        · rw [h0] at hcr ⊢; simp at hcr; subst hcr; simp
    · refine ⟨⟨l.content, .lf⟩, { s := { par.s with rest := r, eof := true }, lineNo := par.lineNo + 1 }, ?_, Or.inl rfl⟩
      simp [heof, hbad, hrest, hn, hcr]
  · refine ⟨l, { s := { par.s with rest := r }, lineNo := par.lineNo + 1 }, ?_, Or.inl rfl⟩
    simp [heof, hbad, hrest, hn]

/-- **a section whose first line is a `diff --git` line**: if the header scan succeeds at all (the name on the line may be
    malformed), the result is a git patch, the `diff --git` line is part of the header and the parser is left strictly
    after it — whatever follows (nothing, filler, the next `diff --git` line, …) -/
theorem parseHeader_git_first (par : Parser) (pt : Patch) (strip : Int) (l : Line) (rest : List Line) (r : Bytes)
    (heof : par.s.eof = false) (hbad : par.s.bad = false) (hrest : par.s.rest = l :: rest)
    (hl : l.content = str "diff --git " ++ r)
    (body : Bool) (p : Patch) (info : HeaderInfo) (par' : Parser)
    (h : parseHeader par pt strip = .ok (body, p, info, par')) :
    p.format = .git ∧ info.format = .git ∧ 2 ≤ info.linesTillFirstHunk ∧ par'.s.rest.length < par.s.rest.length := by
  obtain ⟨st, hloop, _, _, _, _, hfmt⟩ := Cost.parseHeader_state par pt strip body p info par' h
  have hgit : st.isGit = true := by
    obtain ⟨l', par1, hgl, hl'⟩ := getLine_first par l rest heof hbad hrest
    -- the line as it is handed out is a `diff --git` line too (a CR at the very end of the text is taken away, D85)
    obtain ⟨r, hl'⟩ : ∃ r, l'.content = str "diff --git " ++ r := by
      rcases hl' with e | e
      · exact ⟨r, e.trans hl⟩
      · rw [hl] at e
        rcases List.eq_nil_or_concat r with h0 | ⟨d, b, h0⟩
        · subst h0
          have := congrArg List.getLast? e
          rw [str_git] at this
          simp at this
          exact absurd this (by decide)
        · subst h0
          refine ⟨d, ?_⟩
          have : str "diff --git " ++ d.concat b = (str "diff --git " ++ d) ++ [b] := by simp
          rw [this] at e
          exact ((List.append_inj' e rfl).1).symm
    rw [headerLoop, show ({ par := par, patch := pt } : HState).par = par from rfl, hgl] at hloop
    simp only [hl'] at hloop
    rw [headerStep_git_first _ _ _ rfl] at hloop
    cases hn : parseGitHeaderName r strip with
    | error e => rw [hn] at hloop; simp [Except.map] at hloop
    | ok name =>
      rw [hn] at hloop
      simp only [Except.map] at hloop
      exact Cost.headerLoop_isGit strip _ _ _ rfl hloop
  have hg : p.format = .git := by rw [hfmt, hgit]; rfl
  have := Cost.parseHeader_git par pt strip body p info par' h hg
  exact ⟨hg, this.1, this.2.1, this.2.2⟩

/-! ### the `Prereq: ` and `Index: ` lines -/

/-- a `Prereq: ` line (whatever the line before looked like: it starts with `P`): the word is what stands there up to the first
    blank or TAB, whatever `-p` says — it is a word to look for in the file, not the name of one: nothing is stripped and
    (statement changed with the model, D90; was: `parseFileLine r 0`) nothing is unquoted -/
theorem headerStep_prereq (st : HState) (r : Bytes) (strip : Int) :
    headerStep st (str "Prereq: " ++ r) strip =
      .ok ({ entered st with patch := { st.patch with prerequisite := r.takeWhile fun c => c != SP && c != TAB } }, true) := by
  have hd : (str "Prereq: " ++ r).head? = some 80 := by rw [str_prereq]; rfl
  have h1 : consumeStr (str "*** ") (str "Prereq: " ++ r) = none :=
    consumeStr_none_of_startsWith (startsWith_false_of_head _ _ _ _ str_old4 (by rw [hd]; decide))
  have h2 : consumeStr (str "+++ ") (str "Prereq: " ++ r) = none :=
    consumeStr_none_of_startsWith (startsWith_false_of_head _ _ _ _ str_plus4 (by rw [hd]; decide))
  have h3 : consumeStr (str "--- ") (str "Prereq: " ++ r) = none :=
    consumeStr_none_of_startsWith (startsWith_false_of_head _ _ _ _ str_new4 (by rw [hd]; decide))
  have h4 : consumeStr (str "Index: ") (str "Prereq: " ++ r) = none :=
    consumeStr_none_of_startsWith (startsWith_false_of_head _ _ _ _ str_index (by rw [hd]; decide))
  rw [headerStep_late _ _ _ (not_firstBodyLine_of_head (by rw [hd]; decide) (by rw [hd]; decide) (by rw [hd]; decide) (by rw [hd]; decide))]
  simp only [h1, h2, h3, h4, ite_self, Unified.consumeStr_append]

/-- an `Index: ` line, for comparison: the name on it IS stripped by `-p` -/
theorem headerStep_index (st : HState) (r : Bytes) (strip : Int) :
    headerStep st (str "Index: " ++ r) strip =
      (parseFileLine r strip).map fun res => ({ entered st with patch := { st.patch with indexPath := res.1 } }, true) := by
  have hd : (str "Index: " ++ r).head? = some 73 := by rw [str_index]; rfl
  have h1 : consumeStr (str "*** ") (str "Index: " ++ r) = none :=
    consumeStr_none_of_startsWith (startsWith_false_of_head _ _ _ _ str_old4 (by rw [hd]; decide))
  have h2 : consumeStr (str "+++ ") (str "Index: " ++ r) = none :=
    consumeStr_none_of_startsWith (startsWith_false_of_head _ _ _ _ str_plus4 (by rw [hd]; decide))
  have h3 : consumeStr (str "--- ") (str "Index: " ++ r) = none :=
    consumeStr_none_of_startsWith (startsWith_false_of_head _ _ _ _ str_new4 (by rw [hd]; decide))
  rw [headerStep_late _ _ _ (not_firstBodyLine_of_head (by rw [hd]; decide) (by rw [hd]; decide) (by rw [hd]; decide) (by rw [hd]; decide))]
  simp only [h1, h2, h3, ite_self, Unified.consumeStr_append]

/-! ### the operation the header scan returns -/

/-- the operation inferred from the ranges of the first hunk: outside a git section a range of no lines at line 0 says that
    the file is removed (added); in a git section only together with `/dev/null` as the name -/
def opOf (op : Operation) (hunk : Hunk) (isGit : Bool) (oldPath newPath : Bytes) : Operation :=
  if op = .change then
    (if hunk.new.start = 0 ∧ (isGit = false ∨ newPath = devNull) then .delete
     else if hunk.old.start = 0 ∧ (isGit = false ∨ oldPath = devNull) then .add else .change)
  else op

/-- **the operation `parse_patch_header` returns**, in terms of the final state of the scan: the names are those of the
    scan, and the operation is the one the scan found (git extended headers) unless that is `change`: then `opOf` -/
theorem parseHeader_operation (par : Parser) (patch : Patch) (strip : Int) (body : Bool) (p : Patch) (info : HeaderInfo)
    (par' : Parser) (h : parseHeader par patch strip = .ok (body, p, info, par')) :
    ∃ st, headerLoop strip (par.s.rest.length + 2) { par := par, patch := patch } = .ok st ∧
      p.oldPath = st.patch.oldPath ∧ p.newPath = st.patch.newPath ∧
      p.operation = opOf st.patch.operation st.hunk st.isGit st.patch.oldPath st.patch.newPath := by
  unfold parseHeader at h
  simp only [] at h
  split at h
  · simp at h
  · rename_i st hl
    split at h
    · simp at h
    · simp only [Except.ok.injEq, Prod.mk.injEq] at h
      obtain ⟨_, hp, _, _⟩ := h
      refine ⟨st, hl, ?_⟩
      subst hp
      unfold opOf
      cases hg : st.isGit <;> cases hf : st.foundFirstHunk <;>
        simp only [Bool.false_eq_true, if_false, if_true, Bool.not_false, Bool.not_true, true_or, false_or, and_true] <;>
        (repeat' split) <;> simp_all

/-- **in a git section nothing is inferred from the ranges alone**: if neither name is `/dev/null` the operation is the one
    the extended header lines gave (`change` when there was none) — `@@ -1 +0,0 @@` empties the file, it does not remove it -/
theorem parseHeader_git_operation (par : Parser) (patch : Patch) (strip : Int) (body : Bool) (p : Patch) (info : HeaderInfo)
    (par' : Parser) (h : parseHeader par patch strip = .ok (body, p, info, par')) (hg : p.format = .git)
    (hold : p.oldPath ≠ devNull) (hnew : p.newPath ≠ devNull) :
    ∃ st, headerLoop strip (par.s.rest.length + 2) { par := par, patch := patch } = .ok st ∧
      p.operation = st.patch.operation := by
  obtain ⟨st, hl, ho, hn, hop⟩ := parseHeader_operation par patch strip body p info par' h
  obtain ⟨st', hl', hinv, _, _, _, hfmt⟩ := Cost.parseHeader_state par patch strip body p info par' h
  rw [hl] at hl'
  cases hl'
  have hgit : st.isGit = true := by
    cases hgi : st.isGit with
    | true => rfl
    | false =>
      exfalso
      rw [hgi, hg] at hfmt
      simp only [Bool.false_eq_true, if_false] at hfmt
      cases hff : st.foundFirstHunk with
      | false => rw [hff] at hfmt; simp at hfmt
      | true =>
        rw [hff] at hfmt
        have := (hinv.2.2 hff).2
        simp only [Bool.not_true, Bool.false_eq_true, if_false] at hfmt
        rw [← hfmt] at this; simp at this
  refine ⟨st, hl, ?_⟩
  rw [hop]
  unfold opOf
  rw [ho] at hold
  rw [hn] at hnew
  simp only [hgit, hold, hnew, or_self, and_false, if_false, Bool.true_eq_false]
  split <;> simp_all

/-! ### a whole git section header: `diff --git`, `--- old`, `+++ new`, range line, first body line -/

theorem str_head (p : String) (c : UInt8) (bs : Bytes) (h : str p = c :: bs) : (str p).head? = some c := by rw [h]; rfl

/-- a line that starts with none of the first letters of the git extended header keywords is none of them -/
theorem gitExt_of_head (l : Bytes) (p : Patch) (strip : Int)
    (h114 : l.head? ≠ some 114) (h99 : l.head? ≠ some 99) (h100 : l.head? ≠ some 100) (h110 : l.head? ≠ some 110)
    (h111 : l.head? ≠ some 111) (h105 : l.head? ≠ some 105) (h71 : l.head? ≠ some 71) :
    parseGitExtendedInfo l p strip = .ok (false, p) := by
  have k : ∀ (kw : String) (c : UInt8) (bs : Bytes), str kw = c :: bs → l.head? ≠ some c → consumeStr (str kw) l = none :=
    fun kw c bs hk hl => consumeStr_none_of_startsWith (startsWith_false_of_head l kw c bs hk hl)
  have e1 : str "deleted file mode " = 100 :: [101, 108, 101, 116, 101, 100, 32, 102, 105, 108, 101, 32, 109, 111, 100, 101, 32] := by
    unfold str String.toUTF8; rw [Cpp.byteArray_toList_eq_data]; rfl
  have e2 : str "new file mode " = 110 :: [101, 119, 32, 102, 105, 108, 101, 32, 109, 111, 100, 101, 32] := by
    unfold str String.toUTF8; rw [Cpp.byteArray_toList_eq_data]; rfl
  have e3 : str "old mode " = 111 :: [108, 100, 32, 109, 111, 100, 101, 32] := by
    unfold str String.toUTF8; rw [Cpp.byteArray_toList_eq_data]; rfl
  have e4 : str "new mode " = 110 :: [101, 119, 32, 109, 111, 100, 101, 32] := by
    unfold str String.toUTF8; rw [Cpp.byteArray_toList_eq_data]; rfl
  have e5 : str "index " = 105 :: [110, 100, 101, 120, 32] := by
    unfold str String.toUTF8; rw [Cpp.byteArray_toList_eq_data]; rfl
  have e6 : str "GIT binary patch" = 71 :: [73, 84, 32, 98, 105, 110, 97, 114, 121, 32, 112, 97, 116, 99, 104] := by
    unfold str String.toUTF8; rw [Cpp.byteArray_toList_eq_data]; rfl
  unfold parseGitExtendedInfo
  simp only [k _ _ _ Names.str_rename_from h114, k _ _ _ Names.str_rename_to h114, k _ _ _ Names.str_copy_to h99,
    k _ _ _ Names.str_copy_from h99, k _ _ _ e1 h100, k _ _ _ e2 h110, k _ _ _ e3 h111, k _ _ _ e4 h110, k _ _ _ e5 h105,
    k _ _ _ e6 h71]

/-! ### the empty line -/

private theorem str_stars_15 : str "***************" = [42, 42, 42, 42, 42, 42, 42, 42, 42, 42, 42, 42, 42, 42, 42] := by
  unfold str String.toUTF8; rw [Cpp.byteArray_toList_eq_data]; rfl
private theorem str_gt_sp : str "> " = [62, 32] := by
  unfold str String.toUTF8; rw [Cpp.byteArray_toList_eq_data]; rfl
private theorem str_lt_sp : str "< " = [60, 32] := by
  unfold str String.toUTF8; rw [Cpp.byteArray_toList_eq_data]; rfl

theorem inertFacts_nil : InertFacts [] :=
  ⟨startsWith_false_of_head [] _ _ _ str_old4 (by simp), startsWith_false_of_head [] _ _ _ str_plus4 (by simp),
   startsWith_false_of_head [] _ _ _ str_new4 (by simp), startsWith_false_of_head [] _ _ _ str_index (by simp),
   startsWith_false_of_head [] _ _ _ str_prereq (by simp), startsWith_false_of_head [] _ _ _ str_git (by simp),
   startsWith_false_of_head [] _ _ _ str_stars_15 (by simp), startsWith_false_of_head [] _ _ _ Unified.str_atat_minus (by simp),
   rfl⟩

theorem not_bodyStart_nil : ¬ bodyStart [] := by
  intro h
  have := bodyStart_head h
  simp at this

/-- **an empty line** is skipped by the header scan, in or outside a git section, whatever the line before looked like —
    unless that line looked like a unified range with room for an unchanged line on both sides (then it is the first line
    of the first hunk: `headerStep_firstBody`, D86) -/
theorem headerStep_empty_skip (st : HState) (strip : Int)
    (hc : ¬ (st.thisLooks = .unified ∧ (0 : Int) < st.hunk.old.count ∧ (0 : Int) < st.hunk.new.count)) :
    headerStep st [] strip = .ok (skipped st, true) := by
  refine headerStep_skip st [] strip inertFacts_nil ?_ ?_ ?_
  · rw [gitExt_of_head [] st.patch strip (by simp) (by simp) (by simp) (by simp) (by simp) (by simp) (by simp)]
    simp
  · rintro ⟨hl, h⟩
    have h' : bodyStart [] ∨ ([] = ([] : Bytes) ∧ (0 : Int) < st.hunk.old.count ∧ (0 : Int) < st.hunk.new.count) := by
      unfold bodyStart; simpa only [or_assoc] using h
    rcases h' with hb | ⟨_, ho, hn⟩
    · exact not_bodyStart_nil hb
    · exact hc ⟨hl, ho, hn⟩
  · rintro ⟨_, h | h⟩
    · rw [startsWith_false_of_head [] _ _ _ str_gt_sp (by simp)] at h; simp at h
    · rw [startsWith_false_of_head [] _ _ _ str_lt_sp (by simp)] at h; simp at h

/-- a unified range line inside a git section: remembered as "looks unified", like outside one (`headerStep_range`) -/
theorem headerStep_range_git (st : HState) (l : Bytes) (strip : Int) (f : NoKeyword l) (hg : st.isGit = true)
    (hx : parseGitExtendedInfo l st.patch strip = .ok (false, st.patch))
    (hf : st.patch.format = .unknown ∨ st.patch.format = .unified) (h' : Hunk)
    (hb : ¬ (st.thisLooks = .unified ∧ bodyStart l))
    (hp : parseUnifiedRange st.hunk l = (true, h')) :
    headerStep st l strip =
      .ok ({ entered st with hunk := h', thisLooks := .unified, ltfh := st.lines + 1 }, true) := by
  rw [headerStep_tail st l strip f (not_firstBodyLine_of_range hp hb)]
  unfold Cost.hdrTail Cost.hdrUnified
  simp only [hg, hx, hf, hp, if_true]

/-- a name as it stands on a `--- ` / `+++ ` line of a git diff (no time stamp after it): not empty, no TAB, no blank, not
    quoted -/
def wordName (n : Bytes) : Prop := n ≠ [] ∧ TAB ∉ n ∧ SP ∉ n ∧ n.head? ≠ some DQUOTE

theorem headerLoop_git (strip : Int) (st : HState) (r name old new : Bytes) (h : Hunk) (first : Line)
    (more : List Line) (fuel : Nat)
    (hname : parseGitHeaderName r strip = .ok name)
    (hold : wordName old) (hnew : wordName new) (hr : rangeOk h)
    (hb : bodyStart first.content) (hterm : first.newline ≠ .none)
    (hg : st.isGit = false)
    (heof : st.par.s.eof = false) (hbad : st.par.s.bad = false)
    (hrest : st.par.s.rest = ⟨str "diff --git " ++ r, .lf⟩ :: ⟨str "--- " ++ old, .lf⟩ :: ⟨str "+++ " ++ new, .lf⟩ ::
                               ⟨Unified.rangeText h, .lf⟩ :: first :: more) :
    headerLoop strip (fuel + 5) st =
      .ok { st with par := { s := { st.par.s with rest := more }, lineNo := st.par.lineNo + 5 },
                    patch := { st.patch with format := .unified, oldPath := stripped old strip, newPath := stripped new strip,
                                             oldTime := st.patch.newTime, newTime := st.patch.oldTime },
                    lines := st.lines + 5, thisLooks := .unknown, isGit := true,
                    hunk := { st.hunk with old := h.old, new := h.new }, ltfh := st.lines + 4,
                    foundFirstHunk := true } := by
  obtain ⟨⟨⟨r0, e0, b0⟩, n0⟩, p, tl, li, g, sb, hk, lt⟩ := st
  simp only at hg heof hbad hrest
  subst hg heof hbad hrest
  have hfl1 := Names.file_line_word old strip hold.1 hold.2.2.2 hold.2.1 hold.2.2.1
  have hfl2 := Names.file_line_word new strip hnew.1 hnew.2.2.2 hnew.2.1 hnew.2.2.1
  obtain ⟨h1, h2, h3, h4, h5, h6, h7, h8⟩ := hr
  have hrng := fun h0 => Unified.unified_range_roundtrip h h0 h1 h3 h5 h7 h2 h4 h6 h8
  have hrh := rangeText_head h
  -- line 1
  rw [show fuel + 5 = (fuel + 4) + 1 from rfl,
    headerLoop_step strip _ _ _ ⟨_, .lf⟩ _ rfl rfl rfl (by simp) true (by
      simp only []
      rw [headerStep_git_first _ _ _ rfl, hname]
      rfl)]
  simp only [if_true]
  -- line 2
  rw [show fuel + 4 = (fuel + 3) + 1 from rfl,
    headerLoop_step strip _ _ _ ⟨_, .lf⟩ _ rfl rfl rfl (by simp) true (by
      simp only []
      rw [headerStep_minus _ _ _ (not_firstBodyLine_of_looks (by simp)), hfl1]
      rfl)]
  simp only [if_true]
  -- line 3
  rw [show fuel + 3 = (fuel + 2) + 1 from rfl,
    headerLoop_step strip _ _ _ ⟨_, .lf⟩ _ rfl rfl rfl (by simp) true (by
      simp only []
      rw [headerStep_plus _ _ _ (not_firstBodyLine_of_looks (by simp)), hfl2]
      rfl)]
  simp only [if_true]
  -- line 4
  rw [show fuel + 2 = (fuel + 1) + 1 from rfl,
    headerLoop_step strip _ _ _ ⟨_, .lf⟩ _ rfl rfl rfl (by simp) true
      (headerStep_range_git _ _ strip (noKeyword_rangeText h) rfl
        (gitExt_of_head _ _ _ (by rw [hrh]; decide) (by rw [hrh]; decide) (by rw [hrh]; decide) (by rw [hrh]; decide)
          (by rw [hrh]; decide) (by rw [hrh]; decide) (by rw [hrh]; decide))
        (Or.inr rfl) _ (fun hh => not_bodyStart_rangeText h hh.2) (hrng _))]
  simp only [if_true]
  -- line 5
  rw [headerLoop_step strip _ _ _ first _ rfl rfl rfl hterm false
      (headerStep_first' _ _ strip (Or.inr rfl) rfl hb)]
  simp only [Bool.false_eq_true, if_false, stripped]

/-- the operation of a git section whose extended header lines say nothing: removed (added) only if the first range says
    "no lines at line 0" AND the name on that side is `/dev/null` -/
def gitInferredOp (h : Hunk) (oldPath newPath : Bytes) : Operation :=
  if h.new.start = 0 ∧ newPath = devNull then .delete
  else if h.old.start = 0 ∧ oldPath = devNull then .add else .change

/-- **the header of a git section is read back**: `diff --git …`, `--- old`, `+++ new`, the range line and a first body
    line give a git patch with the two names (stripped by `-p`), first hunk on line 4, the stream left at the range line —
    and the operation `gitInferredOp`: for `+++ b/x` and `@@ -1 +0,0 @@` it is `change`, not `delete` -/
theorem parseHeader_git_section (strip : Int) (par : Parser) (pt : Patch) (r name old new : Bytes) (h : Hunk) (first : Line)
    (more : List Line)
    (hname : parseGitHeaderName r strip = .ok name)
    (hold : wordName old) (hnew : wordName new) (hr : rangeOk h)
    (hb : bodyStart first.content) (hterm : first.newline ≠ .none)
    (hop : pt.operation = .change)
    (heof : par.s.eof = false) (hbad : par.s.bad = false)
    (hrest : par.s.rest = ⟨str "diff --git " ++ r, .lf⟩ :: ⟨str "--- " ++ old, .lf⟩ :: ⟨str "+++ " ++ new, .lf⟩ ::
                               ⟨Unified.rangeText h, .lf⟩ :: first :: more) :
    parseHeader par pt strip =
      .ok (true,
           { pt with format := .git, operation := gitInferredOp h (stripped old strip) (stripped new strip),
                     oldPath := stripped old strip, newPath := stripped new strip,
                     oldTime := pt.newTime, newTime := pt.oldTime },
           { linesTillFirstHunk := 4, format := .git },
           { s := { rest := ⟨Unified.rangeText h, .lf⟩ :: first :: more, eof := false, bad := false },
             lineNo := par.lineNo + 3 }) := by
  have hloop := headerLoop_git strip { par := par, patch := pt } r name old new h first more (more.length + 2)
    hname hold hnew hr hb hterm rfl heof hbad hrest
  have hlen : par.s.rest.length + 2 = (more.length + 2) + 5 := by
    rw [hrest]; simp only [List.length_cons]
  unfold parseHeader
  rw [hlen, hloop]
  simp only [PStream.clear, PStream.seek, if_true, hop, Bool.not_true, Bool.false_eq_true, false_or]
  have hsk := skipLines_terminated
    [⟨str "diff --git " ++ r, .lf⟩, ⟨str "--- " ++ old, .lf⟩, (⟨str "+++ " ++ new, .lf⟩ : Line)]
    (⟨Unified.rangeText h, .lf⟩ :: first :: more) { s := { rest := par.s.rest }, lineNo := par.lineNo } rfl rfl
    (by rw [hrest]; rfl)
    (by intro l hl; simp only [List.mem_cons, List.not_mem_nil, or_false] at hl; rcases hl with rfl | rfl | rfl <;> simp)
  have e : 0 + 4 - 1 = [(⟨str "diff --git " ++ r, .lf⟩ : Line), ⟨str "--- " ++ old, .lf⟩, ⟨str "+++ " ++ new, .lf⟩].length := rfl
  rw [e, hsk]
  simp only [List.length_cons, List.length_nil, gitInferredOp]
  split
  · rfl
  · split <;> rfl

end PatchModel.Header
