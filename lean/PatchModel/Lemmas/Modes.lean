/-
  Lemmas/Modes — closed forms of the permission / reject-file helpers of the driver model (C17), the file-system facts
  behind `chmod` of a regular file, and a small "trace footprint" calculus:
    `Touches P s s'`: `s'` has the working directory of `s`, and its trace is the trace of `s` extended by operations whose
    paths all satisfy `P`.
-/
import PatchModel.Model.Driver
import PatchModel.Lemmas.Fault
namespace PatchModel.Modes
open PatchModel PatchModel.Fault

/-! ## closed forms -/

theorem run_emit (e : DEv) (s : DState) : run (emit e) s = (.ok ⟨⟩, { s with out := s.out ++ [e] }) := rfl

theorem run_fsGetPerms (p : Bytes) (s : DState) : run (fsGetPerms p) s =
    (.ok (match s.fs.stat (absPath s p) with
      | some (.file _ m) => some m | some (.dir m) => some m | some (.other m) => some m | _ => none), s) := rfl

theorem run_fsGetPerms_file {p : Bytes} {s : DState} {b m} (h : s.fs.stat (absPath s p) = some (.file b m)) :
    run (fsGetPerms p) s = (.ok (some m), s) := by
  rw [run_fsGetPerms, h]

theorem run_opCreat (p : Bytes) (s : DState) : run (opCreat p) s = run (doOp (.creat (absPath s p))) s := by
  unfold opCreat; rw [run_bind_ok (run_get s)]

theorem run_opWrite (p b : Bytes) (s : DState) : run (opWrite p b) s =
    if b.isEmpty then (.ok ⟨⟩, s) else run (doOp (.write (absPath s p) b)) s := by
  unfold opWrite
  split
  · rfl
  · rw [run_bind_ok (run_get s)]

/-- `doOp` without a scheduled fault, on an operation that succeeds -/
theorem run_doOp_ok {op : FsOp} {s : DState} {fs' : Fs} (hf : s.faultAt = none) (h : s.fs.apply op = .ok fs') :
    run (doOp op) s = (.ok ⟨⟩, { s with fs := fs', trace := s.trace ++ [op], opCount := s.opCount + 1 }) := by
  rw [run_doOp, hf, h]; rfl

/-! ## the file system: `chmod` of a regular file -/

theorem lookup_set_self (fs : Fs) (p : Bytes) (n : Node) : (fs.set p n).lookup p = some n := by
  simp only [Fs.lookup, Fs.set]
  rw [List.find?_append]
  have : List.find? (fun x => x.1 == p) (List.filter (fun x => x.1 != p) fs.nodes) = none := by
    rw [List.find?_eq_none]
    intro x hx
    have := (List.mem_filter.mp hx).2
    simpa using this
  rw [this]
  simp

theorem lookup_set_ne (fs : Fs) {p q : Bytes} (n : Node) (h : q ≠ p) : (fs.set p n).lookup q = fs.lookup q := by
  have hpq : (p == q) = false := by simpa using Ne.symm h
  simp only [Fs.lookup, Fs.set]
  rw [List.find?_append]
  have e1 : List.find? (fun x => x.1 == q) [(p, n)] = none := by
    simp only [List.find?, hpq]
  rw [e1, Option.or_none]
  congr 1
  induction fs.nodes with
  | nil => rfl
  | cons a l ih =>
    by_cases ha : a.1 = p
    · have hq : (a.1 == q) = false := by rw [ha]; exact hpq
      have hf : (a.1 != p) = false := by simp [ha]
      rw [List.filter_cons, List.find?_cons, hq]
      simp only [hf]
      exact ih
    · have hf : (a.1 != p) = true := by simpa using ha
      rw [List.filter_cons]
      simp only [hf, if_true, List.find?_cons]
      rw [ih]

theorem stat_of_lookup_file {fs : Fs} {p : Bytes} {b m} (h : fs.lookup p = some (.file b m)) :
    fs.stat p = some (.file b m) := by
  simp only [Fs.stat, h]

theorem apply_chmod_file {fs : Fs} {p : Bytes} {b m} (mode : Nat) (h : fs.lookup p = some (.file b m)) :
    fs.apply (.chmod p mode) = .ok (fs.set p (.file b mode)) := by
  simp only [Fs.apply, stat_of_lookup_file h, h]

/-- `opChmod` of a regular file reached directly (no symbolic link), no fault scheduled -/
theorem run_opChmod_file {p : Bytes} {s : DState} {b m0} (mode : Nat)
    (h : s.fs.lookup (absPath s p) = some (.file b m0)) (hf : s.faultAt = none) :
    run (opChmod p mode) s = (.ok ⟨⟩, { s with fs := s.fs.set (absPath s p) (.file b mode),
                                                 trace := s.trace ++ [.chmod (absPath s p) mode],
                                                 opCount := s.opCount + 1 }) := by
  rw [run_opChmod_clear (.of_none hf), run_doOp_ok hf (apply_chmod_file mode h)]

/-! ## `m &&& writeMask` -/

theorem needFix_true {m : Nat} (h : m &&& writeMask = 0) : ((m &&& writeMask) == 0) = true := by
  rw [h]; rfl

theorem needFix_false {m : Nat} (h : m &&& writeMask ≠ 0) : ((m &&& writeMask) == 0) = false := by
  simpa using h

/-! ## trace footprints -/

theorem absPath_cwd {s s' : DState} (h : s'.cwd = s.cwd) (p : Bytes) : absPath s' p = absPath s p := by
  simp only [absPath, h]

/-- same working directory; the trace grew by operations on paths satisfying `P` only -/
def Touches (P : Bytes → Prop) (s s' : DState) : Prop :=
  s'.cwd = s.cwd ∧ ∃ ops, s'.trace = s.trace ++ ops ∧ ∀ op ∈ ops, ∀ q ∈ op.paths, P q

theorem Touches.refl {P} (s : DState) : Touches P s s := ⟨rfl, [], by simp, by simp⟩

/-- a state change that leaves `cwd` and `trace` alone -/
theorem Touches.of_eq {P} {s s' : DState} (h1 : s'.cwd = s.cwd) (h2 : s'.trace = s.trace) : Touches P s s' :=
  ⟨h1, [], by simp [h2], by simp⟩

theorem Touches.trans {P} {a b c : DState} (h1 : Touches P a b) (h2 : Touches P b c) : Touches P a c := by
  obtain ⟨c1, o1, t1, p1⟩ := h1
  obtain ⟨c2, o2, t2, p2⟩ := h2
  refine ⟨c2.trans c1, o1 ++ o2, by rw [t2, t1, List.append_assoc], ?_⟩
  intro op hop
  rcases List.mem_append.mp hop with h | h
  · exact p1 op h
  · exact p2 op h

theorem Touches.mono {P Q : Bytes → Prop} {s s'} (h : Touches P s s') (hpq : ∀ q, P q → Q q) : Touches Q s s' := by
  obtain ⟨c, ops, t, p⟩ := h
  exact ⟨c, ops, t, fun op hop q hq => hpq q (p op hop q hq)⟩

/-- a computation whose every run (whatever the result, whatever the fault schedule) has footprint `P` -/
def Foot {α} (P : Bytes → Prop) (m : DM α) : Prop := ∀ s, Touches P s (run m s).2

theorem Foot.pure {α P} (a : α) : Foot P (pure a : DM α) := fun s => Touches.refl s
theorem Foot.throw {α P} (e : Exn) : Foot P (throw e : DM α) := fun s => Touches.refl s
theorem Foot.emit {P} (e : DEv) : Foot P (emit e) := fun s => by
  rw [run_emit]; exact Touches.of_eq rfl rfl

/-- sequencing, where the continuation is only needed from states reachable with footprint `P` -/
theorem touches_bind {α β P} {m : DM α} {f : α → DM β} {s : DState}
    (hm : Touches P s (run m s).2) (hf : ∀ a s', Touches P s s' → Touches P s' (run (f a) s').2) :
    Touches P s (run (m >>= f) s).2 := by
  rcases hr : run m s with ⟨r, s'⟩
  rw [hr] at hm
  cases r with
  | error e => rw [run_bind_error hr]; exact hm
  | ok a => rw [run_bind_ok hr]; exact hm.trans (hf a s' hm)

theorem Foot.bind {α β P} {m : DM α} {f : α → DM β} (hm : Foot P m) (hf : ∀ a, Foot P (f a)) : Foot P (m >>= f) :=
  fun s => touches_bind (hm s) fun a s' _ => hf a s'

theorem touches_doOp {P} (op : FsOp) (s : DState) (h : ∀ q ∈ op.paths, P q) : Touches P s (run (doOp op) s).2 := by
  rw [run_doOp]
  split
  · exact Touches.of_eq rfl rfl
  · split
    · exact ⟨rfl, [op], rfl, by simpa using h⟩
    · exact Touches.of_eq rfl rfl

theorem touches_tryOp {P} (op : FsOp) (tol) (s : DState) (h : ∀ q ∈ op.paths, P q) :
    Touches P s (run (tryOp op tol) s).2 := by
  rw [run_tryOp]
  split
  · exact Touches.of_eq rfl rfl
  · split
    · exact ⟨rfl, [op], rfl, by simpa using h⟩
    · exact Touches.of_eq rfl rfl

/-- a `for` loop all of whose bodies have footprint `P` from every state with the working directory of the start -/
theorem touches_forIn {α β P} (l : List α) (f : α → β → DM (ForInStep β)) (s0 : DState)
    (hf : ∀ a ∈ l, ∀ b s, s.cwd = s0.cwd → Touches P s (run (f a b) s).2) :
    ∀ (init : β) (s : DState), s.cwd = s0.cwd → Touches P s (run (forIn l init f) s).2 := by
  induction l with
  | nil => intro init s _; simp only [List.forIn_nil]; exact Touches.refl s
  | cons a l ih =>
    intro init s hs
    simp only [List.forIn_cons]
    refine touches_bind (hf a (List.mem_cons_self ..) init s hs) fun r s' hs' => ?_
    cases r with
    | done b => exact Touches.refl s'
    | yield b =>
      exact ih (fun a' ha' => hf a' (List.mem_cons_of_mem _ ha')) b s' (hs'.1.trans hs)

theorem touches_opCreat {P} (p : Bytes) (s : DState) (h : P (absPath s p)) : Touches P s (run (opCreat p) s).2 := by
  rw [run_opCreat]; exact touches_doOp _ s (by simpa [FsOp.paths] using h)

theorem touches_opWrite {P} (p b : Bytes) (s : DState) (h : P (absPath s p)) : Touches P s (run (opWrite p b) s).2 := by
  rw [run_opWrite]
  split
  · exact Touches.refl s
  · exact touches_doOp _ s (by simpa [FsOp.paths] using h)

theorem touches_opChmod {P} (p : Bytes) (m : Nat) (s : DState) (h : P (absPath s p)) :
    Touches P s (run (opChmod p m) s).2 := by
  rw [run_opChmod]
  split
  · exact Touches.of_eq rfl rfl
  · exact touches_doOp _ s (by simpa [FsOp.paths] using h)

/-- `make_way_for` removes that name, or nothing -/
theorem touches_makeWayFor {P} (p : Bytes) (s : DState) (h : P (absPath s p)) :
    Touches P s (run (makeWayFor p) s).2 := by
  unfold makeWayFor
  refine touches_bind (by exact Touches.refl s) fun b s' hs' => ?_
  refine touches_bind (by exact Touches.refl s') fun b2 s2 hs2 => ?_
  split
  · rw [run_bind_ok (run_get s2)]
    exact touches_doOp _ s2 (by simpa [FsOp.paths, absPath_cwd hs2.1, absPath_cwd hs'.1] using h)
  · exact Touches.refl s2

/-- opening the reject file (`openRejects`) creates that file (in the place of a symbolic link or regular file of that name), or nothing -/
theorem touches_openRejects {P} (o : Options) (p : Bytes) (s : DState) (h : P (absPath s p)) :
    Touches P s (run (openRejects o p) s).2 := by
  unfold openRejects
  rw [run_bind_ok (run_get s)]
  split
  · rw [run_bind_ok (rfl : run (fsExists p) s = (.ok (s.fs.stat (absPath s p)).isSome, s))]
    split
    · exact touches_opCreat p s h
    · exact Touches.refl s
  · rw [run_bind_ok (run_set _ s)]
    refine (Touches.of_eq rfl rfl).trans ?_
    dsimp only
    split
    · refine touches_bind (touches_makeWayFor p _ h) fun _ s' hs' => ?_
      exact touches_opCreat p s' (by rw [absPath_cwd hs'.1]; exact h)
    · exact touches_opCreat p _ h

/-- `ensure_parent_directories p` only makes directories among the prefixes of `p` -/
theorem touches_ensureParentDirs (p : Bytes) (s : DState) :
    Touches (fun q => ∃ d ∈ dirPrefixes p, q = absPath s d) s (run (ensureParentDirs p) s).2 := by
  have loop : ∀ s', s'.cwd = s.cwd → Touches (fun q => ∃ d ∈ dirPrefixes p, q = absPath s d) s'
      (run (forIn (m := DM) (dirPrefixes p) PUnit.unit fun d _ => do
              let s ← get
              let _ ← tryOp (FsOp.mkdir (absPath s d)) fun x => x == Errno.eexist
              pure (ForInStep.yield PUnit.unit)) s').2 := by
    intro s' hs'
    refine touches_forIn (dirPrefixes p) _ s (fun d hd b s1 hs1 => ?_) _ s' hs'
    rw [run_bind_ok (run_get s1)]
    refine touches_bind (touches_tryOp _ _ s1 ?_) fun _ s2 _ => Touches.refl s2
    intro q hq
    simp only [FsOp.paths, List.mem_singleton] at hq
    exact ⟨d, hd, by rw [hq, absPath_cwd hs1]⟩
  unfold ensureParentDirs
  show Touches _ s (run (if p.isEmpty = true then _ else _) s).2
  split
  · rw [run_bind_error (run_throw _ s)]; exact Touches.refl s
  · exact touches_bind (loop s rfl) fun _ s2 _ => Touches.refl s2

end PatchModel.Modes
