/-
  Lemmas/Run — the pieces needed to run the whole modelled program (`runPatch`) on the text of a unified diff:

  * text: `unified_roundtrip_eof` (the body parser on the emitted hunks with NOTHING after them: the hunks come back — exactly, CR LF
    lines included — and the
    stream is left with the end-of-file flag SET — the read after the last hunk line fails — which is what stops the section
    loop of `process_patch`), `map_normNl_id`, `splitLines_linesText`, `splitLines_diffText`, `flatMap_hunkLines_first`;
  * parse: `parse_diffLines` (header scan + body parse of filler ++ header ++ hunks, as one statement);
  * `validB_sound` (the executable check of `Valid` implies `Valid`);
  * driver: `run_finalizeDeferred_nil`, `sectionLoop_one`, `run_processPatchM(_readable, _unreadable)` (closed form of `processPatchM` given the
    closed form of its section loop), `runPatch_of_run`;
  * a section without file operand: `run_guessFilepath_old`, `GuessSection`, tactic `guess_run`, `processSection_guess(_dry)`.
-/
import PatchModel.Lemmas.Section
import PatchModel.Lemmas.Header
import PatchModel.Lemmas.Unified
namespace PatchModel.Run
open PatchModel PatchModel.DriverFacts PatchModel.Section PatchModel.Unified

/-! ### the body parser at the end of the input -/

/-- after the last line of the last hunk the next read fails: the loop is left and the end-of-file flag is set -/
theorem afterHunk_eof (fuel n : Nat) (hunks : List Hunk) (hk : Hunk) :
    afterHunk fuel ⟨⟨⟨[], false, false⟩, n⟩, hunks, hk, true, 0, 0⟩ =
      .ok (true, ⟨⟨⟨[], true, false⟩, n⟩, hunks, hk, true, 0, 0⟩) := rfl

/-- `Unified.unifiedLoop_hunks` with nothing after the hunks, flags included -/
theorem unifiedLoop_hunks_eof : ∀ (hs : List Hunk) (h : Hunk) (fuel n : Nat) (hunks : List Hunk),
    (∀ x ∈ h :: hs, x.writable = true) →
    (bodyLines h.lines ++ (hs.flatMap hunkLines ++ [])).length + 1 ≤ fuel →
    ∃ st', unifiedLoop fuel ⟨⟨⟨bodyLines h.lines ++ (hs.flatMap hunkLines ++ []), false, false⟩, n⟩, hunks,
          ⟨h.old, h.new, []⟩, true, h.old.count, h.new.count⟩ = .ok (true, st') ∧
      st'.hunks = hunks ++ (h :: hs) ∧ st'.par.s.rest = [] ∧ st'.par.s.eof = true ∧
      st'.par.s.bad = false := by
  intro hs
  induction hs with
  | nil =>
    intro h fuel n hunks hw hfuel
    obtain ⟨hops, hoc, hnc, hne, _, hnl, _⟩ := writable_spec h (hw h List.mem_cons_self)
    simp only [List.flatMap_nil, List.nil_append] at hfuel ⊢
    obtain ⟨fuel', n', _, h2⟩ := unifiedLoop_body h.lines fuel n hunks h.old h.new [] [] hne hops hnl
      (afterOK_tail [] rfl) hfuel
    rw [hoc, hnc, h2, hunk_eq, afterHunk_eof]
    exact ⟨_, rfl, rfl, rfl, rfl, rfl⟩
  | cons h2 hs ih =>
    intro h fuel n hunks hw hfuel
    obtain ⟨hops, hoc, hnc, hne, _, hnl, _⟩ := writable_spec h (hw h List.mem_cons_self)
    have hw2 : h2.writable = true := hw h2 (by simp)
    rw [List.flatMap_cons, List.append_assoc] at hfuel ⊢
    obtain ⟨fuel', n', h1, h2'⟩ := unifiedLoop_body h.lines fuel n hunks h.old h.new []
      (hunkLines h2 ++ (hs.flatMap hunkLines ++ [])) hne hops hnl (afterOK_hunkLines _ _) hfuel
    rw [hoc, hnc, h2', hunk_eq]
    unfold afterHunk
    simp only [hunkLines, List.cons_append, getLine_lf, parseUnifiedRange_rangeText _ h2 hw2, Bool.not_true,
      Bool.false_eq_true, if_false]
    obtain ⟨st', e1, e2, e3⟩ := ih h2 fuel' (n' + 1) (hunks ++ [h])
      (fun x hx => hw x (List.mem_cons_of_mem _ hx))
      (by simp only [hunkLines, List.cons_append, List.length_cons] at h1; omega)
    refine ⟨st', e1, ?_, e3⟩
    rw [e2]; simp

/-- **unified round trip at the end of the input**: the hunks come back, nothing is left, and the stream has seen its end -/
theorem unified_roundtrip_eof (hs : List Hunk) (hne : hs ≠ []) (hw : ∀ h ∈ hs, h.writable = true) (lineNo : Nat) :
    ∃ par', parseUnifiedBody { s := { rest := hs.flatMap hunkLines }, lineNo := lineNo }
        = .ok (hs, par') ∧ par'.s.rest = [] ∧ par'.s.eof = true ∧ par'.s.bad = false := by
  cases hs with
  | nil => exact absurd rfl hne
  | cons h hs =>
    unfold parseUnifiedBody
    simp only [List.flatMap_cons, hunkLines, List.cons_append, List.length_cons]
    rw [unifiedLoop_range _ _ ⟨rangeText h, .lf⟩ _ _ (getLine_lf _ _ _) rfl
      (parseUnifiedRange_rangeText defaultHunk h (hw h List.mem_cons_self))]
    obtain ⟨st', e1, e2, e3⟩ := unifiedLoop_hunks_eof hs h ((bodyLines h.lines ++ (List.flatMap hunkLines hs)).length + 2)
      (lineNo + 1) [] hw (by simp only [List.append_nil]; omega)
    simp only [List.append_nil] at e1
    simp only [defaultHunk]
    rw [e1]
    exact ⟨st'.par, by simp [e2], e3⟩

/-! ### hunks whose lines are LF terminated (or unterminated) are what the text says -/

theorem map_normNl_id (hs : List Hunk) (h : ∀ hk ∈ hs, ∀ pl ∈ hk.lines, pl.line.newline ≠ .crlf) :
    hs.map Hunk.normNl = hs := by
  have hl : ∀ l : Line, l.newline ≠ .crlf → l.normNl = l := by
    intro ⟨c, nl⟩ hnl
    cases nl with
    | lf => rfl
    | none => rfl
    | crlf => exact absurd rfl hnl
  have hp : ∀ ls : List PatchLine, (∀ pl ∈ ls, pl.line.newline ≠ .crlf) → ls.map PatchLine.normNl = ls := by
    intro ls
    induction ls with
    | nil => intro _; rfl
    | cons pl ls ih =>
      intro hh
      rw [List.map_cons, ih (fun x hx => hh x (List.mem_cons_of_mem _ hx))]
      congr 1
      rcases pl with ⟨op, l⟩
      simp only [PatchLine.normNl, hl l (hh _ List.mem_cons_self)]
  induction hs with
  | nil => rfl
  | cons hk hs ih =>
    rw [List.map_cons, ih (fun x hx => h x (List.mem_cons_of_mem _ hx))]
    congr 1
    rcases hk with ⟨o, n, ls⟩
    simp only [Hunk.normNl, hp ls (h _ List.mem_cons_self)]

/-! ### the text of a diff, as lines -/

/-- the bytes of a list of LF terminated lines -/
def linesText (ls : List Line) : Bytes := ls.flatMap fun l => l.content ++ [NL]

/-- lines that survive being written with LF and read back -/
def lfPlain (l : Line) : Bool := l.newline == .lf && plainLine l

theorem plainLine_spec {l : Line} (h : plainLine l = true) : NL ∉ l.content ∧ l.content.getLast? ≠ some CR := by
  unfold plainLine at h
  simp only [Bool.and_eq_true, Bool.not_eq_true', bne_iff_ne, ne_eq] at h
  refine ⟨?_, h.2⟩
  have := h.1
  simp at this
  exact this

theorem splitLines_linesText (ls : List Line) (rest : Bytes) (h : ∀ l ∈ ls, lfPlain l = true) :
    splitLines (linesText ls ++ rest) = ls ++ splitLines rest := by
  induction ls with
  | nil => rfl
  | cons l ls ih =>
    have hl := h l List.mem_cons_self
    unfold lfPlain at hl
    simp only [Bool.and_eq_true, beq_iff_eq] at hl
    obtain ⟨h1, h2⟩ := plainLine_spec hl.2
    have ih' := ih (fun x hx => h x (List.mem_cons_of_mem _ hx))
    unfold linesText at ih' ⊢
    rw [List.flatMap_cons, List.append_assoc, List.append_assoc, List.singleton_append,
      splitLines_line _ _ h1 h2, ih', List.cons_append]
    congr 1
    rcases l with ⟨c, nl⟩
    simp only at hl
    rw [hl.1]

/-- the two header lines of a unified diff followed by its hunks, as bytes -/
def diffText (old new oldt newt : Bytes) (hs : List Hunk) : Bytes :=
  str "--- " ++ old ++ [TAB] ++ oldt ++ [NL] ++ (str "+++ " ++ new ++ [TAB] ++ newt ++ [NL] ++ hs.flatMap writeHunkUnified)

theorem headerLine_split (kw : String) (name t rest : Bytes) (hkw : NL ∉ str kw) (hn : NL ∉ name) (ht : NL ∉ t)
    (hne : t ≠ []) (hcr : t.getLast? ≠ some CR) :
    splitLines (str kw ++ name ++ [TAB] ++ t ++ [NL] ++ rest) = ⟨str kw ++ name ++ [TAB] ++ t, .lf⟩ :: splitLines rest := by
  rw [List.append_assoc _ [NL] rest, List.singleton_append]
  apply splitLines_line
  · simp only [List.mem_append, List.mem_singleton, not_or]
    exact ⟨⟨⟨hkw, hn⟩, by decide⟩, ht⟩
  · rw [List.getLast?_append]
    cases ht' : t.getLast? with
    | none => exact absurd (List.getLast?_eq_none_iff.1 ht') hne
    | some c => rw [ht'] at hcr; simpa using hcr

theorem splitLines_diffText (old new oldt newt : Bytes) (hs : List Hunk)
    (ho : NL ∉ old) (hn : NL ∉ new) (hot : NL ∉ oldt) (hnt : NL ∉ newt) (hote : oldt ≠ []) (hnte : newt ≠ [])
    (hoc : oldt.getLast? ≠ some CR) (hnc : newt.getLast? ≠ some CR) (hw : ∀ h ∈ hs, h.writable = true) :
    splitLines (diffText old new oldt newt hs) =
      ⟨str "--- " ++ old ++ [TAB] ++ oldt, .lf⟩ :: ⟨str "+++ " ++ new ++ [TAB] ++ newt, .lf⟩ :: hs.flatMap hunkLines := by
  unfold diffText
  rw [headerLine_split "--- " old oldt _ (by rw [Header.str_new4]; decide) ho hot hote hoc,
    headerLine_split "+++ " new newt _ (by rw [Header.str_plus4]; decide) hn hnt hnte hnc,
    splitLines_hunks hs (fun h hh => (writable_spec h (hw h hh)).1) (fun h hh => (writable_spec h (hw h hh)).2.2.2.2.1)]

/-- the first two lines of the emitted hunks: the range line of the first hunk and its first body line -/
theorem flatMap_hunkLines_first (h : Hunk) (hs : List Hunk) (hw : h.writable = true) :
    ∃ pl more, h.lines.head? = some pl ∧ (pl.op = SP ∨ pl.op = PLUS ∨ pl.op = MINUS) ∧
      (h :: hs).flatMap hunkLines = ⟨rangeText h, .lf⟩ :: ⟨pl.op :: pl.line.content, wireNl pl.line⟩ :: more := by
  obtain ⟨hops, _, _, hne, _⟩ := writable_spec h hw
  cases hl : h.lines with
  | nil => exact absurd hl hne
  | cons pl rest =>
    refine ⟨pl, (if pl.line.newline = .none then [markerLine] else []) ++ bodyLines rest ++ hs.flatMap hunkLines, rfl,
      hops pl (by rw [hl]; exact List.mem_cons_self), ?_⟩
    simp only [List.flatMap_cons, hunkLines, hl, bodyLines, List.cons_append, List.append_assoc]

/-! ### header scan + body parse of a whole unified diff

(Up to the C++ fix "do not take a line of the first hunk for a file header" a hypothesis `firstLineOk hs` was needed here: a first
body line `--- x` / `+++ y` of the first hunk was taken for a file name line and the hunk dropped.  The header scan now looks
for the first body line of a unified hunk before anything else — `Header.parseHeader_unified'` —, and the hypothesis is gone.) -/

/-- the first range states a change: neither the creation (`-0,0`) nor the removal (`+0,0`) of the file -/
def changeStart (hs : List Hunk) : Bool :=
  match hs with
  | h :: _ => h.old.start != 0 && h.new.start != 0
  | [] => true

/-- the lines of a unified diff: filler, the two header lines, the hunks -/
def diffLines (filler : List Line) (old new oldt newt : Bytes) (hs : List Hunk) : List Line :=
  filler ++ ⟨str "--- " ++ old ++ [TAB] ++ oldt, .lf⟩ :: ⟨str "+++ " ++ new ++ [TAB] ++ newt, .lf⟩ :: hs.flatMap hunkLines

theorem rangeOk_of_writable (h : Hunk) (hw : h.writable = true) : Header.rangeOk h := by
  obtain ⟨_, h2, h3, _, _, _, h7, h8, h9, h10⟩ := writable_spec h hw
  unfold Header.rangeOk
  omega

theorem parse_diffLines (strip : Int) (fmt : Format) (hfmt : fmt = .unknown ∨ fmt = .unified)
    (filler : List Line) (old new oldt newt : Bytes) (hs : List Hunk) (lineNo : Nat)
    (hin : ∀ l ∈ filler, inertLine l.content = true) (hft : ∀ l ∈ filler, l.newline ≠ .none)
    (hold : Header.plainName old) (hnew : Header.plainName new) (hot : oldt ≠ []) (hnt : newt ≠ [])
    (hne : hs ≠ []) (hw : ∀ h ∈ hs, h.writable = true) (hchg : changeStart hs = true) :
    ∃ patch0 info par1 par2,
      parseHeader { s := { rest := diffLines filler old new oldt newt hs }, lineNo := lineNo } { format := fmt } strip
        = .ok (true, patch0, info, par1) ∧
      patch0.format = .unified ∧ patch0.operation = .change ∧ patch0.prerequisite = [] ∧ patch0.hunks = [] ∧
      patch0.newMode = 0 ∧ patch0.oldPath = Header.stripped old strip ∧
      parseBody par1 patch0 = .ok ({ patch0 with hunks := hs }, par2) ∧ par2.s.eof = true := by
  cases hs with
  | nil => exact absurd rfl hne
  | cons h hs' =>
    have hwh := hw h List.mem_cons_self
    obtain ⟨pl, more, -, hop, hlines⟩ := flatMap_hunkLines_first h hs' hwh
    have hb : Header.bodyStart (pl.op :: pl.line.content) := by
      rcases hop with e | e | e
      · exact Or.inr (Or.inr ((Header.startsWith_one _ _ _ Header.str_sp).2 (by rw [e]; rfl)))
      · exact Or.inl ((Header.startsWith_one _ _ _ Header.str_plus).2 (by rw [e]; rfl))
      · exact Or.inr (Or.inl ((Header.startsWith_one _ _ _ Header.str_minus).2 (by rw [e]; rfl)))
    have hchg' : h.old.start ≠ 0 ∧ h.new.start ≠ 0 := by simpa [changeStart] using hchg
    have hp := Header.parseHeader_unified' strip
      { s := { rest := diffLines filler old new oldt newt (h :: hs') }, lineNo := lineNo } { format := fmt } filler
      old new oldt newt h ⟨pl.op :: pl.line.content, wireNl pl.line⟩ more hin hft hold hnew hot hnt (rangeOk_of_writable h hwh) hb
      (wireNl_ne_none _) hfmt rfl rfl rfl (by simp only [diffLines]; rw [hlines])
    obtain ⟨par2, hbody, _, heof, _⟩ := unified_roundtrip_eof (h :: hs') hne hw (lineNo + (filler.length + 2))
    rw [hlines] at hbody
    have hinf : Header.inferredOp h = .change := by
      unfold Header.inferredOp; rw [if_neg hchg'.2, if_neg hchg'.1]
    refine ⟨_, _, _, par2, hp, rfl, hinf, rfl, rfl, rfl, rfl, ?_, heof⟩
    simp only [parseBody]
    rw [hbody]
    rfl

/-! ### the executable check of `Valid` is sound -/

theorem wfB_WF (h : Hunk) (hw : h.wfB = true) : h.WF := by
  unfold Hunk.wfB at hw
  simp only [Bool.and_eq_true, List.all_eq_true, Bool.or_eq_true, beq_iff_eq] at hw
  obtain ⟨⟨h1, h2⟩, h3⟩ := hw
  refine ⟨?_, h2, h3⟩
  intro pl hpl
  rcases h1 pl hpl with (h | h) | h
  · exact Or.inl h
  · exact Or.inr (Or.inl h)
  · exact Or.inr (Or.inr h)

theorem validB_sound (file : List Line) : ∀ (hs : List Hunk) (c : Nat) (d : Int), validB file c d hs = true → Valid file c d hs
  | [], c, d, h => Valid.nil c d (by simpa [validB] using h)
  | hk :: hs, c, d, h => by
    simp only [validB, Bool.and_eq_true, decide_eq_true_eq, beq_iff_eq, Bool.not_eq_true'] at h
    obtain ⟨⟨⟨⟨⟨⟨⟨h1, h2⟩, h3⟩, h4⟩, h5⟩, h6⟩, h7⟩, h8⟩ := h
    have hp : hk.pos0 = (hk.pos0.toNat : Int) := by omega
    refine Valid.cons c d hk hs hk.pos0.toNat (wfB_WF _ h1) hp h3 h4 h5 (by rw [← hp]; exact h6) ?_
      (validB_sound file hs _ _ h8)
    rintro ⟨e1, e2, e3⟩
    have : file.isEmpty = false := by
      cases file with
      | nil => exact absurd rfl e3
      | cons _ _ => rfl
    simp [e1, e2, this] at h7

/-! ### the driver around one section -/

/-- nothing deferred: `DeferredWriter::finalize` does nothing -/
theorem run_finalizeDeferred_nil (o : Options) (s : DState) (h1 : s.dWrites = []) (h2 : s.dRemovals = []) :
    (finalizeDeferred o).run s = (.ok (), s) := by
  unfold finalizeDeferred
  simp only [run_bind, run_get, h1, h2]
  rfl

/-- the section loop over a stream with exactly one section that ends at the end of the input: one pass, then the
    end-of-file flag stops the loop -/
theorem sectionLoop_one (o : Options) (fmt : Format) (fuel : Nat) (s s' : DState) (h0 : s.par.s.eof = false)
    (hrun : (processSection o fmt).run s = (.ok true, s')) (heof : s'.par.s.eof = true) :
    (sectionLoop o fmt (fuel + 2)).run s = (.ok (), s') := by
  rw [sectionLoop]
  simp only [run_bind, run_get, h0, Bool.false_eq_true, if_false, hrun, if_true]
  rw [sectionLoop]
  simp only [run_bind, run_get, heof, if_true, run_pure]

/-- which format the options force (none of -c -n -e given) -/
theorem diffFormat_plain (o : Options) (hc : o.asContext = false) (hn : o.asNormal = false) (he : o.asEd = false) :
    diffFormatFromOptions o = .ok (if o.asUnified then .unified else .unknown) := by
  unfold diffFormatFromOptions
  simp only [hc, hn, he, Bool.false_eq_true, if_false]
  split <;> rfl

/-- `process_patch` with the patch read from a regular file in the tree (`-i pname`), no `-d`: the closed form of the
    section loop on the lines of that file is the closed form of the whole.  The patch file is opened for reading only: root,
    or the owner-read bit of its mode, is all that is asked (CHANGED with the model change "the patch is only read": `-i` of a
    read-only file used to fail for want of the write bit) -/
theorem run_processPatchM_readable (o : Options) (s0 s' : DState) (pname ptext : Bytes) (pm : Nat) (fmt : Format)
    (hdir : o.directory = []) (hpf : o.patchFile = pname) (hpne : pname ≠ []) (hpd : pname ≠ [45])
    (hcwd : s0.cwd = []) (hfile : s0.fs.lookup pname = some (.file ptext pm))
    (hread : s0.fs.isRoot = true ∨ pm / 256 % 2 = 1)
    (hfmt : diffFormatFromOptions o = .ok fmt)
    (hloop : (sectionLoop o fmt ((splitLines ptext).length + 2)).run { s0 with par := { s := { rest := splitLines ptext } } }
      = (.ok (), s'))
    (hdw : s'.dWrites = []) (hdr : s'.dRemovals = []) :
    (processPatchM o).run s0 = (.ok (), s') := by
  have hpe : pname.isEmpty = false := by
    cases pname with
    | nil => exact absurd rfl hpne
    | cons _ _ => rfl
  have hpd' : (pname == [45]) = false := by simpa using hpd
  have hr : (s0.fs.isRoot || pm / 256 % 2 == 1) = true := by
    rcases hread with h | h <;> simp [h]
  unfold processPatchM
  simp only [hdir, List.isEmpty_nil, Bool.not_true, Bool.false_eq_true, if_false, ↓run_bind, ↓run_get, ↓run_pure, hpf,
    hpe, hpd', Bool.or_false, absPath_nil hcwd, Fs.stat_of_file hfile, hr, if_true, ↓run_liftE, hfmt,
    ↓run_modify, hloop, run_finalizeDeferred_nil o s' hdw hdr]

/-- the same for root (the form used by `C01_run`) -/
theorem run_processPatchM (o : Options) (s0 s' : DState) (pname ptext : Bytes) (pm : Nat) (fmt : Format)
    (hdir : o.directory = []) (hpf : o.patchFile = pname) (hpne : pname ≠ []) (hpd : pname ≠ [45])
    (hcwd : s0.cwd = []) (hfile : s0.fs.lookup pname = some (.file ptext pm)) (hroot : s0.fs.isRoot = true)
    (hfmt : diffFormatFromOptions o = .ok fmt)
    (hloop : (sectionLoop o fmt ((splitLines ptext).length + 2)).run { s0 with par := { s := { rest := splitLines ptext } } }
      = (.ok (), s'))
    (hdw : s'.dWrites = []) (hdr : s'.dRemovals = []) :
    (processPatchM o).run s0 = (.ok (), s') :=
  run_processPatchM_readable o s0 s' pname ptext pm fmt hdir hpf hpne hpd hcwd hfile (.inl hroot) hfmt hloop hdw hdr

/-- a patch file that its owner may not read (and the user is not root) cannot be opened: `std::system_error` before anything
    is done (exit status 2, state untouched) -/
theorem run_processPatchM_unreadable (o : Options) (s0 : DState) (pname ptext : Bytes) (pm : Nat)
    (hdir : o.directory = []) (hpf : o.patchFile = pname) (hpne : pname ≠ []) (hpd : pname ≠ [45])
    (hcwd : s0.cwd = []) (hfile : s0.fs.lookup pname = some (.file ptext pm))
    (hroot : s0.fs.isRoot = false) (hmode : pm / 256 % 2 ≠ 1) :
    (processPatchM o).run s0 = (.error .systemError, s0) := by
  have hpe : pname.isEmpty = false := by
    cases pname with
    | nil => exact absurd rfl hpne
    | cons _ _ => rfl
  have hpd' : (pname == [45]) = false := by simpa using hpd
  have hr : (s0.fs.isRoot || pm / 256 % 2 == 1) = false := by simp [hroot, hmode]
  unfold processPatchM
  simp only [hdir, List.isEmpty_nil, Bool.not_true, Bool.false_eq_true, if_false, ↓run_bind, ↓run_get, hpf,
    hpe, hpd', Bool.or_false, absPath_nil hcwd, Fs.stat_of_file hfile, hr, ↓run_throw]

/-- `main` after option parsing, given the closed form of `process_patch` -/
theorem runPatch_of_run (o : Options) (s0 s' : DState) (hh : o.showHelp = false) (hv : o.showVersion = false)
    (hrun : (processPatchM o).run s0 = (.ok (), s')) :
    runPatch o s0 = (if s'.hadFailure then 1 else 0, s') := by
  unfold runPatch
  simp only [hh, hv, Bool.or_false, Bool.false_eq_true, if_false, hrun]

/-! ### a section without operand: the file name comes from the header

The same closed forms as `Section.processSection_clean(_dry)` when no file operand is given and `guess_filepath` finds the old
name of the header in the tree (`GuessSection` = `Section.PlainSection` with `operand` replaced by `noOperand`, `oldPath`,
`notNull`; `guess_run` = `section_run` with the corresponding rewrite rules). -/

/-- `guess_filepath` when the old name of the header names a regular file of the tree — and the patch is not a rename / copy
    being reversed (`hrc`, new: for those the file which the patch made is looked for first) -/
theorem run_guessFilepath_old (pt : Patch) (r : Bool) {s : DState} {b : Bytes} {m : Nat} (hcwd : s.cwd = [])
    (hrc : (r && (pt.operation == .rename || pt.operation == .copy)) = false)
    (hnd : pt.oldPath ≠ devNull) (h : s.fs.lookup pt.oldPath = some (.file b m)) :
    (guessFilepath pt r).run s = (.ok pt.oldPath, s) := by
  have hne : (pt.oldPath != devNull) = true := by simpa using hnd
  unfold guessFilepath
  rw [run_bind, run_fsExists]
  simp only [hrc, Bool.false_and, Bool.false_eq_true, if_false]
  simp only [run_bind, run_fsExists_file hcwd h, hne, Bool.and_self, if_true]
  rfl

structure GuessSection (o : Options) (fmt : Format) (s : DState) (p bytes : Bytes) (m : Nat)
    (patch0 patch2 : Patch) (info : HeaderInfo) (par1 par2 : Parser) (r : ApplyResult) : Prop where
  noOperand : o.fileToPatch = []
  oldPath : patch0.oldPath = p
  notNull : p ≠ devNull
  noOut : o.outFile = []
  noBackup : o.saveBackup = false
  pathNe : p ≠ []
  cwd : s.cwd = []
  hdr : parseHeader s.par { format := fmt } o.strip = .ok (true, patch0, info, par1)
  fmt : patch0.format = .unified ∨ patch0.format = .context ∨ patch0.format = .normal
  op : patch0.operation = .change
  pre : patch0.prerequisite = []
  body : parseBody par1 patch0 = .ok (patch2, par2)
  fmt2 : patch2.format = patch0.format
  op2 : patch2.operation = .change
  newMode2 : patch2.newMode = 0
  file : s.fs.lookup p = some (.file bytes m)
  writable : m &&& writeMask ≠ 0
  root : s.fs.isRoot = true
  noFault : s.faultAt = none
  apply : applyPatch (splitLines bytes) patch2 (applyOptsOf o)
      (Option.map (fun l => List.map (fun a => !List.isEmpty a && List.head? a != some 110) l) s.tty) = .ok r
  failed : r.failed = 0
  perfect : r.perfect = true
  skipped : r.skipped = false
  msgs : r.msgs = []
  ttyLeft : r.tty = Option.map (fun l => List.map (fun a => !List.isEmpty a && List.head? a != some 110) l) s.tty
  patch : r.patch = patch2

section
variable {o : Options} {fmt : Format} {s : DState} {p bytes : Bytes} {m : Nat}
  {patch0 patch2 : Patch} {info : HeaderInfo} {par1 par2 : Parser} {r : ApplyResult}

syntax "guess_run " "[" Lean.Parser.Tactic.simpLemma,* "]" : tactic
set_option hygiene false in
macro_rules | `(tactic| guess_run [$ls,*]) => `(tactic| (
  have hfu : (patch0.format == Format.unknown) = false := by
    rcases H.fmt with h | h | h <;> rw [h] <;> rfl
  have hfg : (patch2.format == Format.git) = false := by
    rw [H.fmt2]; rcases H.fmt with h | h | h <;> rw [h] <;> rfl
  have hob : (patch0.operation == Operation.binary) = false := by rw [H.op]; rfl
  have hor : (patch0.operation == Operation.rename) = false := by rw [H.op]; rfl
  have hoc : (patch0.operation == Operation.copy) = false := by rw [H.op]; rfl
  have hoa2 : (patch2.operation == Operation.add) = false := by rw [H.op2]; rfl
  have hor2 : (patch2.operation == Operation.rename) = false := by rw [H.op2]; rfl
  have hoc2 : (patch2.operation == Operation.copy) = false := by rw [H.op2]; rfl
  have hod2 : (patch2.operation == Operation.delete) = false := by rw [H.op2]; rfl
  have hpe : List.isEmpty p = false := by
    cases p with
    | nil => exact absurd rfl H.pathNe
    | cons _ _ => rfl
  have hout : outputPath o patch0 p = p := by
    unfold outputPath; simp [H.noOut, hor, hoc]
  have hdash : (o.outFile == [45]) = false := by rw [H.noOut]; rfl
  have hguess : ∀ s' : DState, s'.cwd = [] → s'.fs.lookup p = some (.file bytes m) →
      (guessFilepath patch0 o.reverse).run s' = (.ok p, s') := by
    intro s' h1 h2
    have := run_guessFilepath_old patch0 o.reverse (s := s') (b := bytes) (m := m) h1 (by rw [hor, hoc]; simp)
      (by rw [H.oldPath]; exact H.notNull)
      (by rw [H.oldPath]; exact h2)
    rw [H.oldPath] at this
    exact this
  unfold processSection
  simp only [↓run_bind, ↓run_get, ↓run_liftE, ↓run_modify, ↓run_pure, ↓run_emit,
    H.hdr, hfu, hob, H.noOperand, List.isEmpty_nil, hguess, hpe, hout, hor, hdash,
    Bool.false_eq_true, ↓reduceIte, Bool.false_and, Bool.and_false, Bool.not_true, Bool.not_false,
    Bool.or_false, Bool.false_or, Bool.and_true, Bool.true_and,
    run_createTemp, H.noFault, H.cwd,
    run_fsExists_file (b := bytes) (m := m), run_fsIsRegular_file (b := bytes) (m := m),
    run_fsIsSymlink_file (b := bytes) (m := m), H.file,
    (fun s' => @run_fixPermissions_writable o s' p bytes m), H.writable, ne_eq, not_false_eq_true,
    absPath_nil, readFile_root (b := bytes) (m := m), H.root,
    H.pre,
    run_parseBodyM_true (pt' := patch2) (par' := par2), H.body,
    H.apply, H.msgs, H.failed, H.perfect, H.skipped, H.patch, H.noBackup, hoa2, hor2, hoc2, hod2,
    bne_self_eq_false, beq_self_eq_true, H.ttyLeft, hfg, H.newMode2, $ls,*]))

/-- a clean section without operand, real run -/
theorem processSection_guess (H : GuessSection o fmt s p bytes m patch0 patch2 info par1 par2 r)
    (hreal : o.dryRun = false) (hdir : s.fs.dirExists (parentOf p) = true) :
    ∃ s', (processSection o fmt).run s = (.ok true, s') ∧
      s'.fs = s.fs.set p (.file (render o.newlineOutput r.out) m) ∧
      s'.trace = s.trace ++ [.tmpCreate, .tmpUnlink] ++ [.tmpCreate, .tmpUnlink] ++
        resultOps p (render o.newlineOutput r.out) m ∧
      SectionDone s s' p par2 false := by
  guess_run [hreal, (fun s' pt c perm => @run_writePatchedResult_plain s' p bytes m o pt c m perm), hdir]
  refine ⟨_, rfl, rfl, rfl, ⟨rfl, rfl, rfl, rfl, ?_, ?_, H.cwd.symm, H.noFault.symm, rfl, rfl, rfl, rfl, rfl⟩⟩
  · generalize s.tty = t
    cases t <;> simp
  · simp

/-- a clean section without operand, --dry-run -/
theorem processSection_guess_dry (H : GuessSection o fmt s p bytes m patch0 patch2 info par1 par2 r)
    (hdry : o.dryRun = true) :
    ∃ s', (processSection o fmt).run s = (.ok true, s') ∧
      s'.fs = s.fs ∧
      s'.trace = s.trace ++ [.tmpCreate, .tmpUnlink] ++ [.tmpCreate, .tmpUnlink] ∧
      SectionDone s s' p par2 true := by
  guess_run [hdry]
  refine ⟨_, rfl, rfl, rfl, ⟨rfl, rfl, rfl, rfl, ?_, ?_, H.cwd.symm, H.noFault.symm, rfl, rfl, rfl, rfl, rfl⟩⟩
  · generalize s.tty = t
    cases t <;> simp
  · simp

end

end PatchModel.Run
