/-
  Model/Driver — src/patch.cpp `process_patch` (with PatchFile, Backup, DeferredWriter, fix_permissions_if_needed,
  refuse_to_patch, write_patched_result_to_file, guess_filepath, prompt_for_filepath, check_prerequisite_handling),
  the helpers of src/system.cpp it uses, and `main`'s exception table — over the abstract file system of Model/Fs.
  The state survives an exception (`ExceptT` over `StateM`): an abort leaves the tree as it was at that instant.
-/
import PatchModel.Model.Fs
import PatchModel.Model.Parse
import PatchModel.Model.Cmdline
namespace PatchModel

/-- what the driver prints, as structured events (message wording is not modelled) -/
inductive DEv
  | file (path : Bytes) (dry : Bool)              -- "patching file X" / "checking file X"
  | msg (m : Msg)                                   -- what apply_patch printed
  | failed (n total : Nat) (ignored : Bool) (rej : Option Bytes)
  | cantFind | skipping | notRegular | readOnly | refusing | notDeleting | binary | garbage | prereqWarn
  | asked (q : String)
  deriving DecidableEq, Repr, Inhabited

structure PermResult where
  oldPerms : Option Nat := none     -- `perms::unknown` = none
  needFix : Bool := false
  hadFailure : Bool := false
  deriving Repr, Inhabited

structure DeferredWrite where
  dest : Bytes
  content : Bytes
  newMode : Nat
  perm : PermResult
  backup : Bool := false
  deriving Repr, Inhabited

structure DState where
  fs : Fs
  cwd : Bytes := []
  trace : List FsOp := []
  out : List DEv := []
  tty : Option (List Bytes) := none       -- lines typed on /dev/tty (none: no controlling terminal)
  stdin : Bytes := []
  stdout : Bytes := []                     -- only the patched result with `-o -`
  par : Parser := { s := { rest := [] } }
  hadFailure : Bool := false
  firstPatch : Bool := true
  backedUp : List Bytes := []
  rejWritten : List Bytes := []            -- reject files written so far in this run (`RejectFiles`)
  dWrites : List DeferredWrite := []
  dRemovals : List (Bytes × Bool) := []    -- (path, a backup of it is due)
  -- ghost state (not in the code): the (file to patch, output file) pair of every section that got that far
  sections : List (Bytes × Bytes) := []
  -- fault schedule (C10): the `faultAt`-th file system operation of the run fails once with an I/O error
  opCount : Nat := 0
  faultAt : Option Nat := none
  deriving Inhabited

abbrev DM := ExceptT Exn (StateM DState)

def absPath (s : DState) (p : Bytes) : Bytes :=
  if s.cwd.isEmpty || p.head? == some SLASHB then p else s.cwd ++ [SLASHB] ++ p

def emit (e : DEv) : DM Unit := modify fun s => { s with out := s.out ++ [e] }

/-- perform a mutating operation: logged, and a failure is a `std::system_error` -/
def doOp (op : FsOp) : DM Unit := do
  let s ← get
  if s.faultAt == some s.opCount then
    set { s with opCount := s.opCount + 1 }
    throw Exn.systemError
  match s.fs.apply op with
  | .ok fs' => set { s with fs := fs', trace := s.trace ++ [op], opCount := s.opCount + 1 }
  | .error _ => set { s with opCount := s.opCount + 1 }; throw Exn.systemError

/-- same, but the listed errno is tolerated (returns false, nothing happens) -/
def tryOp (op : FsOp) (tolerated : Errno → Bool) : DM Bool := do
  let s ← get
  if s.faultAt == some s.opCount then
    set { s with opCount := s.opCount + 1 }
    throw Exn.systemError
  match s.fs.apply op with
  | .ok fs' => set { s with fs := fs', trace := s.trace ++ [op], opCount := s.opCount + 1 }; pure true
  | .error e => set { s with opCount := s.opCount + 1 }; if tolerated e then pure false else throw Exn.systemError

def fsExists (p : Bytes) : DM Bool := do let s ← get; pure (s.fs.stat (absPath s p)).isSome
def fsIsRegular (p : Bytes) : DM Bool := do
  let s ← get
  pure (match s.fs.stat (absPath s p) with | some (.file _ _) => true | _ => false)
/-- `filesystem::is_symlink(path)` (lstat) -/
def fsIsSymlink (p : Bytes) : DM Bool := do
  let s ← get
  pure (match s.fs.lookup (absPath s p) with | some (.symlink _) => true | _ => false)
/-- `filesystem::get_permissions` -/
def fsGetPerms (p : Bytes) : DM (Option Nat) := do
  let s ← get
  pure (match s.fs.stat (absPath s p) with
    | some (.file _ m) => some m | some (.dir m) => some m | some (.other m) => some m | _ => none)

def opCreat (p : Bytes) : DM Unit := do let s ← get; doOp (.creat (absPath s p))
def opWrite (p : Bytes) (b : Bytes) : DM Unit := do
  if b.isEmpty then pure () else do let s ← get; doOp (.write (absPath s p) b)
/-- `filesystem::permissions`: a chmod which fails is no trouble if there is nothing to change (D105) -/
def opChmod (p : Bytes) (m : Nat) : DM Unit := do
  let s ← get
  if s.faultAt == some s.opCount then
    set { s with opCount := s.opCount + 1 }
    if (match s.fs.stat (absPath s p) with
        | some (.file _ m') => m' == m | some (.dir m') => m' == m | some (.other m') => m' == m | _ => false) then pure ()
    else throw Exn.systemError
  else doOp (.chmod (absPath s p) m)
def opRename (a b : Bytes) : DM Unit := do let s ← get; doOp (.rename (absPath s a) (absPath s b))

/-- `File::create_temporary`: created exclusively in $TMPDIR and unlinked at once -/
def createTemp : DM Unit := do doOp .tmpCreate; doOp .tmpUnlink

/-- `File file(path, out|trunc)`; write; (checked) flush -/
def writeFile (p : Bytes) (content : Bytes) : DM Unit := do opCreat p; opWrite p content

/-- all proper directory prefixes of a path: "a/b/c" ↦ ["a", "a/b"] (empty components of a leading slash skipped) -/
def dirPrefixes (p : Bytes) : List Bytes :=
  let idxs := (List.range p.length).filter fun i => p[i]! == SLASHB
  (idxs.map fun i => p.take i).filter (!·.isEmpty)

/-- `ensure_parent_directories` -/
def ensureParentDirs (p : Bytes) : DM Unit := do
  if p.isEmpty then throw Exn.systemError
  for d in dirPrefixes p do
    let s ← get
    let _ ← tryOp (.mkdir (absPath s d)) (· == .eexist)

/-- `remove_file_and_empty_parent_folders` -/
def removeFileAndEmptyParents (p : Bytes) : DM Unit := do
  let s ← get
  doOp (.unlink (absPath s p))
  let mut go := true
  for d in (dirPrefixes p).reverse do
    if go then
      let s ← get
      -- whatever keeps the directory where it is, is no trouble: the file has been removed and that is what was asked for (D91)
      let ok ← tryOp (.rmdir (absPath s d)) (fun _ => true)
      if !ok then go := false

/-- only the write bit of the owner decides whether a file is read-only, and only that bit is set to write to it (D94) -/
def writeMask : Nat := 0o200

/-- `fix_permissions_if_needed` -/
def fixPermissionsIfNeeded (o : Options) (outputFile : Bytes) : DM PermResult := do
  let old ← fsGetPerms outputFile
  let needFix := match old with | some m => (m &&& writeMask) == 0 | none => false
  if needFix then
    if o.readOnly != .ignore then
      emit .readOnly
      if o.readOnly == .fail then
        return { oldPerms := old, needFix := true, hadFailure := true }
  pure { oldPerms := old, needFix := needFix }

/-- the `make_writable` callback of `write_patched_result_to_file`: a read-only file becomes writable only right before it is written,
    which is after it may have been moved to its backup: then nothing is left to be made writable (D93) -/
def makeWritable (perm : PermResult) (p : Bytes) : DM Unit := do
  if perm.needFix && (← fsExists p) then
    match perm.oldPerms with
    | some m => opChmod p (m ||| writeMask)
    | none => pure ()

/-- the permission callback of `write_patched_result_to_file` -/
def permissionCallback (newMode : Nat) (perm : PermResult) (p : Bytes) : DM Unit := do
  if newMode != 0 then opChmod p (newMode &&& 0o7777)
  else match perm.oldPerms with
    | some m => opChmod p m
    | none => pure ()

def applyOptsOf (o : Options) : ApplyOpts :=
  { reverse := o.reverse, ignoreReversed := o.ignoreReversed, batch := o.batch, force := o.force,
    ignoreWhitespace := o.ignoreWhitespace, maxFuzz := o.maxFuzz, define := o.define,
    newlineOutput := o.newlineOutput, rejectFormat := o.rejectFormat, verbose := o.verbose }

def rejectPath (o : Options) (outputFile : Bytes) : Bytes :=
  if o.rejectFile.isEmpty then outputFile ++ str ".rej" else o.rejectFile

/-- all hunks of a patch as one reject file -/
def allRejectBytes (p : Patch) (fmt : RejectFormat) : Nat → List Hunk → Except Exn Bytes
  | _, [] => .ok []
  | n, h :: hs =>
    match writeReject p fmt n h with
    | .error e => .error e
    | .ok b => (allRejectBytes p fmt (n + 1) hs).map (b ++ ·)

/-- `make_way_for`: a file of our own making (the rejects, the empty backup of a file which did not exist) takes the place of
    whatever has its name; it is neither written through a symbolic link nor into a file which may have other names (D95, D101) -/
def makeWayFor (p : Bytes) : DM Unit := do
  if (← fsIsSymlink p) || (← fsIsRegular p) then
    let s ← get
    doOp (.unlink (absPath s p))

/-- open the reject file (`RejectFiles::open_mode_for`: the first rejects written to a file in this run replace what is in it,
    later ones are added: fopen(path, "a") does not truncate, and creates the file if it is gone) -/
def openRejects (o : Options) (rej : Bytes) : DM Unit := do
  let s ← get
  if s.rejWritten.contains rej then
    if !(← fsExists rej) then opCreat rej
  else
    set { s with rejWritten := s.rejWritten ++ [rej] }
    -- a file which we were told to write the rejects to is whatever it is (/dev/stderr is a symbolic link)
    if o.rejectFile.isEmpty then makeWayFor rej
    opCreat rej

def writeRejects (o : Options) (rej : Bytes) (bytes : Bytes) : DM Unit := do
  openRejects o rej
  opWrite rej bytes

/-- `refuse_to_patch` -/
def refuseToPatch (o : Options) (outputFile : Bytes) (p : Patch) : DM Unit := do
  emit .refusing
  -- a patch without any hunk (a change of mode only) has nothing to save
  if !o.dryRun && !p.hunks.isEmpty then
    let rej := rejectPath o outputFile
    emit (.failed p.hunks.length p.hunks.length true (some rej))
    ensureParentDirs rej
    openRejects o rej
    match allRejectBytes p o.rejectFormat 0 p.hunks with
    | .error e => throw e
    | .ok b => opWrite rej b
  else emit (.failed p.hunks.length p.hunks.length true none)

/-- the first of the names which is an actual name (`first_name_of` in `guess_filepath`) -/
def firstNameOf (ns : List Bytes) : Bytes := (ns.find? fun n => !n.isEmpty && n != devNull).getD []

/-- `guess_filepath` -/
def guessFilepath (p : Patch) (reverse : Bool) : DM Bytes := do
  -- reversing a rename or a copy starts from the file which it made
  if reverse && (p.operation == .rename || p.operation == .copy) && (← fsExists p.newPath) then return p.newPath
  if p.oldPath != devNull && (← fsExists p.oldPath) then return p.oldPath
  if p.newPath != devNull && (← fsExists p.newPath) then return p.newPath
  if p.indexPath != devNull && (← fsExists p.indexPath) then return p.indexPath
  -- a file which is created need not exist, neither does one which is removed (D88); /dev/null and a name which was left out are
  -- never the file to patch (D104)
  if p.operation == .add then return firstNameOf [p.newPath, p.oldPath, p.indexPath]
  if p.operation == .delete then return firstNameOf [p.oldPath, p.newPath, p.indexPath]
  pure []

/-- `read_tty_until_enter` -/
def readTty : DM Bytes := do
  let s ← get
  match s.tty with
  | none => throw Exn.systemError
  | some [] => pure []
  | some (a :: rest) => set { s with tty := some rest }; pure a

/-- `check_with_user(question, default)` -/
def checkWithUser (q : String) (dflt : Bool) : DM Bool := do
  emit (.asked q)
  let b ← readTty
  let dc : UInt8 := if dflt then 121 else 110
  let truthy := b.isEmpty || b.head? == some dc
  pure (if dflt then truthy else !truthy)

/-- `prompt_for_filepath` -/
def promptForFilepath : Nat → DM Bytes
  | 0 => pure []
  | fuel + 1 => do
    emit (.asked "File to patch:")
    let b ← readTty
    if !b.isEmpty then
      if (← fsIsRegular b) then return b
    if (← checkWithUser "Skip this patch?" true) then return []
    promptForFilepath fuel

def backupName (o : Options) (p : Bytes) : Bytes :=
  if !o.backupPrefix.isEmpty && !o.backupSuffix.isEmpty then o.backupPrefix ++ p ++ o.backupSuffix
  else if !o.backupPrefix.isEmpty then o.backupPrefix ++ p
  else if !o.backupSuffix.isEmpty then p ++ o.backupSuffix
  else p ++ str ".orig"

/-- `Backup::make_backup_for` -/
def makeBackupFor (o : Options) (p : Bytes) : DM Unit := do
  let bn := backupName o p
  -- only a file has a backup: what else may be written to (with -o) stays where it is (D106)
  if (← fsExists p) && !(← fsIsRegular p) then return
  let s ← get
  if !s.backedUp.contains bn then
    set { s with backedUp := s.backedUp ++ [bn] }
    ensureParentDirs bn      -- a prefix may put the backup in a directory of its own
    if (← fsExists p) then opRename p bn else do makeWayFor bn; opCreat bn

/-- `is_symlink(mode)`: all of the file type bits are compared (160000 is a submodule: D102) -/
def isSymlinkMode (m : Nat) : Bool := (m &&& 0o170000) == 0o120000

/-- `write_patched_result_to_file` -/
def writePatchedResult (o : Options) (p : Patch) (outputFile : Bytes) (perm : PermResult) (shouldBackup : Bool) (content : Bytes) : DM Unit := do
  if p.operation == .add then ensureParentDirs outputFile
  if p.format == .git && p.operation != .delete then
    if isSymlinkMode p.newMode then do
      if shouldBackup then makeBackupFor o outputFile
      let s ← get
      doOp (.symlink content (absPath s outputFile))
    else modify fun s => { s with dWrites := s.dWrites ++ [{ dest := outputFile, content := content, newMode := p.newMode, perm := perm,
                                                             backup := shouldBackup }] }
  else do
    if shouldBackup then makeBackupFor o outputFile
    makeWritable perm outputFile
    writeFile outputFile content
    permissionCallback p.newMode perm outputFile

/-- `DeferredWriter::finalize` -/
def finalizeDeferred (o : Options) : DM Unit := do
  let s ← get
  for w in s.dWrites do
    ensureParentDirs w.dest
    if w.backup then makeBackupFor o w.dest
    makeWritable w.perm w.dest
    writeFile w.dest w.content
    permissionCallback w.newMode w.perm w.dest
  for (p, backup) in s.dRemovals do
    if !(s.dWrites.any (·.dest == p)) then
      -- moving the file to its backup takes it out of the way just as well, unless an earlier section already made that backup
      if backup then makeBackupFor o p
      if !backup || (← fsExists p) then removeFileAndEmptyParents p

def hasPrerequisite (lines : List Line) (pre : Bytes) : Bool :=
  lines.any fun l => (List.range (l.content.length + 1)).any fun i => pre.isPrefixOf (l.content.drop i)

/-- `diff_format_from_options` -/
def diffFormatFromOptions (o : Options) : Except Exn Format :=
  if o.asContext then .ok .context else if o.asNormal then .ok .normal else if o.asUnified then .ok .unified
  else if o.asEd then .error .invalidArgument else .ok .unknown

def outputPath (o : Options) (p : Patch) (fileToPatch : Bytes) : Bytes :=
  if !o.outFile.isEmpty then o.outFile
  else if p.operation == .rename || p.operation == .copy then (if o.reverse then p.oldPath else p.newPath)
  else fileToPatch

def liftE {α} (e : Except Exn α) : DM α := match e with | .ok a => pure a | .error x => throw x

def parseBodyM (should : Bool) (p : Patch) : DM Patch := do
  if should then
    let s ← get
    let (p', par') ← liftE (parseBody s.par p)
    modify fun s => { s with par := par' }
    pure p'
  else pure p

def failNow : DM Unit := modify fun s => { s with hadFailure := true }

/-- one pass of the `while (!parser.is_eof())` loop; returns false when the loop is left by `break` -/
def processSection (o : Options) (format : Format) : DM Bool := do
  let s ← get
  let (shouldParseBody, patch0, _info, par1) ← liftE (parseHeader s.par { format := format } o.strip)
  modify fun s => { s with par := par1 }
  if patch0.format == .unknown then
    if s.firstPatch then throw Exn.invalidArgument
    if o.verbose then emit .garbage
    return false
  modify fun s => { s with firstPatch := false }
  if patch0.operation == .binary then
    emit .binary; failNow; return true
  let guessed ← if o.fileToPatch.isEmpty then guessFilepath patch0 o.reverse else pure o.fileToPatch
  if guessed.isEmpty then emit .cantFind
  -- no questions with --force / --batch: a patch without a file to apply it to is skipped
  let fileToPatch ← if guessed.isEmpty && !o.force && !o.batch then promptForFilepath 64 else pure guessed
  if fileToPatch.isEmpty then
    let p ← parseBodyM shouldParseBody patch0
    emit .skipping
    emit (.failed p.hunks.length p.hunks.length true none)
    failNow; return true
  let outputFile := outputPath o patch0 fileToPatch
  modify fun s => { s with sections := s.sections ++ [(fileToPatch, outputFile)] }
  createTemp    -- tmp_reject_file
  -- what is read must be a regular file, and so must what is written if that exists (the new name of a rename or copy; not with -o);
  -- a symbolic link is never read or written through, not even for a patch which is about a link (D92)
  let notRegular (p : Bytes) : DM Bool := do
    if (← fsIsSymlink p) then return true
    return (← fsExists p) && !(← fsIsRegular p)
  let refused ← (do
    if (← notRegular fileToPatch) then return true
    if o.outFile.isEmpty && outputFile != fileToPatch && (← notRegular outputFile) then return true
    return false : DM Bool)
  if refused then
    let p ← parseBodyM shouldParseBody patch0
    emit .notRegular
    refuseToPatch o outputFile p
    failNow; return true
  let perm0 ← fixPermissionsIfNeeded o outputFile
  if perm0.hadFailure then
    let p ← parseBodyM shouldParseBody patch0
    refuseToPatch o outputFile p
    failNow; return true
  let perm ← if perm0.oldPerms.isNone && outputFile != fileToPatch then do
      let m ← fsGetPerms fileToPatch
      pure { perm0 with oldPerms := m }
    else pure perm0
  -- the input
  let s ← get
  let isCreating := patch0.operation == .add || patch0.operation == .delete
  let inputBytes ← match s.fs.readFile (absPath s fileToPatch) with
    | .ok b => pure b
    | .error .enoent => if isCreating then pure [] else throw Exn.systemError
    | .error _ => throw Exn.systemError
  let inputLines := splitLines inputBytes
  if !patch0.prerequisite.isEmpty && !hasPrerequisite inputLines patch0.prerequisite then
    if o.batch then throw Exn.runtimeError
    else if o.force then emit .prereqWarn
    else if !(← checkWithUser "patch anyway?" false) then throw Exn.runtimeError
  emit (.file outputFile o.dryRun)
  let patch1 := if patch0.operation == .rename && fileToPatch == outputFile then { patch0 with operation := .change } else patch0
  let patch2 ← parseBodyM shouldParseBody patch1
  createTemp    -- tmp_out_file
  let s ← get
  let ttyB := s.tty.map fun l => l.map fun a => !a.isEmpty && a.head? != some 110
  let r ← liftE (applyPatch inputLines patch2 (applyOptsOf o) ttyB)
  -- consume the tty answers apply_patch used
  modify fun s => { s with tty := match s.tty, r.tty with
                                    | some l, some rest => some (l.drop (l.length - rest.length))
                                    | t, _ => t,
                           out := s.out ++ r.msgs.map DEv.msg }
  let patch := r.patch
  let outBytes := render o.newlineOutput r.out
  if r.failed != 0 then
    failNow
    if !o.dryRun then
      let rej := rejectPath o outputFile
      emit (.failed r.failed patch.hunks.length r.skipped (some rej))
      ensureParentDirs rej
      writeRejects o rej r.rejBytes
    else emit (.failed r.failed patch.hunks.length r.skipped none)
  if o.outFile == [45] then
    modify fun s => { s with stdout := s.stdout ++ outBytes }
  else
    let shouldBackup := o.saveBackup || (!r.perfect && !r.skipped && o.backupIfMismatch == .yes)
    let mut writeToFile := !o.dryRun
    if o.removeEmptyFiles == .yes && patch.operation == .delete then
      if outBytes.isEmpty then
        -- only a patch which was applied removes the file (D110); if it was skipped or some of it failed the result is written as that of
        -- any other patch (it may be what is left by the hunks which did apply), unless there was no file to read to begin with
        -- (D111; the file which was read, not the one which is written: D112)
        if !r.skipped && r.failed == 0 then
          if !o.dryRun then
            if shouldBackup then makeBackupFor o outputFile
            if (← fsExists outputFile) then removeFileAndEmptyParents outputFile
          writeToFile := false
        else if !(← fsExists fileToPatch) then
          writeToFile := false
      else if patch.newPath == devNull then
        emit .notDeleting; failNow
    if writeToFile then
      if patch.operation == .add || patch.operation == .rename || patch.operation == .copy then ensureParentDirs outputFile
      writePatchedResult o patch outputFile perm shouldBackup outBytes
    if r.failed == 0 then
      if writeToFile && patch.operation == .rename && o.outFile.isEmpty then
        if patch.format == .git then modify fun s => { s with dRemovals := s.dRemovals ++ [(fileToPatch, shouldBackup)] }
        else removeFileAndEmptyParents fileToPatch
  pure true

def sectionLoop (o : Options) (format : Format) : Nat → DM Unit
  | 0 => throw Exn.logicError       -- fuel exhausted: the loop would not terminate
  | fuel + 1 => do
    let s ← get
    if s.par.s.eof then pure ()
    else if (← processSection o format) then sectionLoop o format fuel else pure ()

/-- `process_patch` (after help/version). `patchBytes`: the patch file's content when `-i` names a readable file -/
def processPatchM (o : Options) : DM Unit := do
  if !o.directory.isEmpty then
    let s ← get
    match s.fs.stat o.directory with
    | some (.dir _) => set { s with cwd := o.directory }
    | _ => throw Exn.systemError
  -- PatchFile
  let s ← get
  let bytes ← if o.patchFile.isEmpty || o.patchFile == [45] then do
      createTemp; pure s.stdin
    else match s.fs.stat (absPath s o.patchFile) with
      | some (.file b m) => if s.fs.isRoot || m / 256 % 2 == 1 then pure b else throw Exn.systemError   -- opened for reading only
      | _ => throw Exn.systemError
  let format ← liftE (diffFormatFromOptions o)
  let lines := splitLines bytes
  modify fun s => { s with par := { s := { rest := lines } } }
  sectionLoop o format (lines.length + 2)
  finalizeDeferred o

/-- `main` after option parsing: exit status and final state -/
def runPatch (o : Options) (s0 : DState) : Nat × DState :=
  if o.showHelp || o.showVersion then (0, s0)
  else match (processPatchM o).run s0 with
    | (.ok (), s) => (if s.hadFailure then 1 else 0, s)
    | (.error _, s) => (2, s)

end PatchModel
