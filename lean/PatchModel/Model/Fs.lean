/-
  Model/Fs — the file system as patch sees it (src/system.cpp, the stdio calls of src/file.cpp), restricted to what
  patch.cpp uses.  A tree is a list of (path, node); paths are relative byte strings without trailing slash; the
  working directory itself always exists.  Every mutation goes through `Fs.apply` of an `FsOp` and is logged.
  Modelled, not verified: POSIX semantics of these operations (atomic rename, O_TRUNC, permission checks for root
  and for the owner of all files, one level of symlink resolution).
-/
import PatchModel.Model.Basic
namespace PatchModel

inductive Node
  | file (bytes : Bytes) (mode : Nat)
  | dir (mode : Nat)
  | symlink (target : Bytes)
  | other (mode : Nat)          -- FIFO, device, socket
  deriving DecidableEq, Repr, Inhabited

/-- mutating operations (what strace shows of a run, minus reads/stats/closes) -/
inductive FsOp
  | creat (p : Bytes)                    -- open(O_CREAT|O_TRUNC) of a path in the tree
  | write (p : Bytes) (bytes : Bytes)    -- all bytes written through that descriptor
  | rename (a b : Bytes)
  | unlink (p : Bytes)
  | rmdir (p : Bytes)
  | mkdir (p : Bytes)
  | chmod (p : Bytes) (mode : Nat)
  | symlink (target p : Bytes)
  | tmpCreate                            -- anonymous temporary in $TMPDIR: created O_EXCL …
  | tmpUnlink                            -- … and unlinked at once
  deriving DecidableEq, Repr, Inhabited

def FsOp.isTmp : FsOp → Bool
  | .tmpCreate | .tmpUnlink => true
  | _ => false

/-- the paths an operation touches -/
def FsOp.paths : FsOp → List Bytes
  | .creat p | .write p _ | .unlink p | .rmdir p | .mkdir p | .chmod p _ | .symlink _ p => [p]
  | .rename a b => [a, b]
  | .tmpCreate | .tmpUnlink => []

structure Fs where
  nodes : List (Bytes × Node) := []
  isRoot : Bool := true          -- uid 0 (permission checks are skipped)
  umask : Nat := 0o022
  deriving Repr, Inhabited

def SLASHB : UInt8 := 47

def parentOf (p : Bytes) : Bytes :=
  let r := p.reverse.dropWhile (· != SLASHB)
  (r.drop 1).reverse

def Fs.lookup (fs : Fs) (p : Bytes) : Option Node := (fs.nodes.find? (·.1 == p)).map (·.2)

def Fs.set (fs : Fs) (p : Bytes) (n : Node) : Fs :=
  { fs with nodes := (fs.nodes.filter (·.1 != p)) ++ [(p, n)] }

def Fs.erase (fs : Fs) (p : Bytes) : Fs := { fs with nodes := fs.nodes.filter (·.1 != p) }

/-- does the directory `d` exist ("" = the working directory) -/
def Fs.dirExists (fs : Fs) (d : Bytes) : Bool :=
  d.isEmpty || (match fs.lookup d with | some (.dir _) => true | _ => false)

/-- `stat`: follows one level of symbolic link (target relative to the link's directory) -/
def Fs.stat (fs : Fs) (p : Bytes) : Option Node :=
  match fs.lookup p with
  | some (.symlink t) =>
    let d := parentOf p
    fs.lookup (if d.isEmpty || t.head? == some SLASHB then t else d ++ [SLASHB] ++ t)
  | n => n

def Fs.hasChildren (fs : Fs) (d : Bytes) : Bool :=
  fs.nodes.any fun (q, _) => (d ++ [SLASHB]).isPrefixOf q

inductive Errno | enoent | eacces | eexist | enotempty | eisdir | enotdir | eio
  deriving DecidableEq, Repr, Inhabited

/-- effect of one operation on the tree, or the errno it fails with (tree unchanged) -/
def Fs.apply (fs : Fs) : FsOp → Except Errno Fs
  | .creat p =>
    if !fs.dirExists (parentOf p) then .error .enoent
    else match fs.stat p with
      | some (.file _ m) => if fs.isRoot || m / 128 % 2 == 1 then
          (match fs.lookup p with
           | some (.symlink t) =>
             let d := parentOf p
             .ok (fs.set (if d.isEmpty || t.head? == some SLASHB then t else d ++ [SLASHB] ++ t) (.file [] m))
           | _ => .ok (fs.set p (.file [] m)))
        else .error .eacces
      | some (.dir _) => .error .eisdir
      | some (.other m) => .ok (fs.set p (.other m))     -- opening a FIFO for writing (would block; never done by patch)
      | some (.symlink _) => .error .enoent              -- dangling chain
      | none => .ok (fs.set p (.file [] (0o666 - (0o666 &&& fs.umask))))
  | .write p bytes =>
    (match fs.lookup p with
     | some (.file old m) => .ok (fs.set p (.file (old ++ bytes) m))
     | some (.symlink t) =>
       let d := parentOf p
       let q := if d.isEmpty || t.head? == some SLASHB then t else d ++ [SLASHB] ++ t
       (match fs.lookup q with
        | some (.file old m) => .ok (fs.set q (.file (old ++ bytes) m))
        | _ => .error .eio)
     | _ => .error .eio)
  | .rename a b =>
    (match fs.lookup a with
     | none => .error .enoent
     | some n =>
       if !fs.dirExists (parentOf b) then .error .enoent
       -- a directory is only replaced by a directory (the program renames files only: "Is a directory")
       else if (match fs.lookup b, n with | some (.dir _), .dir _ => false | some (.dir _), _ => true | _, _ => false) then .error .eisdir
       else .ok ((fs.erase a).set b n))
  | .unlink p =>
    (match fs.lookup p with
     | none => .error .enoent
     | some (.dir _) => if fs.hasChildren p then .error .enotempty else .ok (fs.erase p)   -- std::remove falls back to rmdir
     | some _ => .ok (fs.erase p))
  | .rmdir p =>
    (match fs.lookup p with
     | some (.dir _) => if fs.hasChildren p then .error .enotempty else .ok (fs.erase p)
     | some _ => .error .enotdir
     | none => .error .enoent)
  | .mkdir p =>
    if (fs.lookup p).isSome then .error .eexist
    else if !fs.dirExists (parentOf p) then .error .enoent
    else .ok (fs.set p (.dir (0o777 - (0o777 &&& fs.umask))))
  | .chmod p mode =>
    (match fs.stat p with
     | some (.file b _) =>
       (match fs.lookup p with
        | some (.symlink t) =>
          let d := parentOf p
          .ok (fs.set (if d.isEmpty || t.head? == some SLASHB then t else d ++ [SLASHB] ++ t) (.file b mode))
        | _ => .ok (fs.set p (.file b mode)))
     | some (.dir _) => .ok (fs.set p (.dir mode))
     | some (.other _) => .ok (fs.set p (.other mode))
     | _ => .error .enoent)
  | .symlink target p =>
    if (fs.lookup p).isSome then .error .eexist
    else if !fs.dirExists (parentOf p) then .error .enoent
    else .ok (fs.set p (.symlink target))
  | .tmpCreate => .ok fs
  | .tmpUnlink => .ok fs

/-- `fopen(path, "r")` + read everything: needs read permission unless root -/
def Fs.readFile (fs : Fs) (p : Bytes) : Except Errno Bytes :=
  match fs.stat p with
  | some (.file b m) => if fs.isRoot || m / 256 % 2 == 1 then .ok b else .error .eacces
  | some (.dir _) => .error .eisdir
  | some _ => .error .eio
  | none => .error .enoent

end PatchModel
