/-
  Model/Paths — file names in patch headers: `LineParser` (src/parser.cpp), `strip_path`,
  `filesystem::basename`, `parse_quoted_string`, `parse_file_line`, `parse_git_header_name`,
  `parse_git_extended_info`, `parse_mode`, and the number readers `consume_line_number` /
  `string_to_line_number`.  A `LineParser` is its remaining input (`Bytes`).
-/
import PatchModel.Model.Format
namespace PatchModel

def SLASH : UInt8 := 47
def DQUOTE : UInt8 := 34
def BACKSLASH : UInt8 := 92

def isDigit (c : UInt8) : Bool := 48 ≤ c && c ≤ 57
def isOctal (c : UInt8) : Bool := 48 ≤ c && c ≤ 55

/-- `filesystem::basename` -/
def basename (path : Bytes) : Bytes :=
  (path.reverse.takeWhile (· != SLASH)).reverse

theorem dropWhile_length_le {α} (p : α → Bool) (l : List α) : (l.dropWhile p).length ≤ l.length := by
  induction l with
  | nil => simp
  | cons a l ih =>
    simp only [List.dropWhile]
    split
    · simp only [List.length_cons]; omega
    · simp

/-- the loop of `strip_path` (as fixed): a whole run of separators is skipped at a time;
    returns (remaining_to_strip, suffix starting at stripped_begin) -/
def stripLoop : Bytes → Int → Bytes → Int × Bytes
  | [], remaining, begin_ => (remaining, begin_)
  | c :: rest, remaining, begin_ =>
    if c == SLASH then
      let after := rest.dropWhile (· == SLASH)
      let remaining' := remaining - 1
      let begin' := if remaining' ≥ 0 then after else begin_
      stripLoop after remaining' begin'
    else stripLoop rest remaining begin_
termination_by l => l.length
decreasing_by
  all_goals simp_wf
  · have : (List.dropWhile (fun x => x == SLASH) rest).length ≤ rest.length := dropWhile_length_le _ _
    omega

/-- `strip_path(path, amount)` -/
def stripPath (path : Bytes) (amount : Int) : Bytes :=
  if amount < 0 then basename path
  else
    let (remaining, begin_) := stripLoop path amount path
    if begin_ = [] ∨ remaining > 0 then [] else begin_

def i64Max : Int := 9223372036854775807

/-- `string_to_line_number` on a non-empty digit string: (success, value of `output` afterwards — partial on overflow) -/
def stringToLineNumber : Bytes → Int → Bool × Int
  | [], out => (true, out)
  | c :: rest, out =>
    if i64Max / 10 < out then (false, out)
    else
      let out10 := out * 10
      let d : Int := (c.toNat - 48 : Nat)
      if i64Max - d < out10 then (false, out10)
      else stringToLineNumber rest (out10 + d)

/-- `LineParser::consume_line_number(output)`: (ok, new value of `output`, remaining input).
    Without a leading digit `output` is untouched. -/
def consumeLineNumber (r : Bytes) (cur : Int) : Bool × Int × Bytes :=
  match r with
  | c :: _ =>
    if isDigit c then
      let digits := r.takeWhile isDigit
      let rest := r.dropWhile isDigit
      let (ok, v) := stringToLineNumber digits 0
      -- headroom so that arithmetic on line numbers read from a patch can not overflow
      (ok && decide (v ≤ i64Max / 4), v, rest)
    else (false, cur, r)
  | [] => (false, cur, r)

/-- `consume_specific(const char*)` -/
def consumeStr (s : Bytes) (r : Bytes) : Option Bytes :=
  if s.isPrefixOf r then some (r.drop s.length) else none

/-- `LineParser::parse_quoted_string` (starts at the opening quote). Returns the decoded string and the remaining input
    (positioned AT the closing quote, as in the code). `fuel` ≥ remaining length + 1 (each step consumes input). -/
def parseQuotedGo : Nat → Bytes → Bytes → Except Exn (Bytes × Bytes)
  | 0, _, _ => .error .invalidArgument
  | _ + 1, [], _ => .error .invalidArgument        -- "Failed to find terminating \""
  | fuel + 1, c :: rest, acc =>
    if c == DQUOTE then .ok (acc, c :: rest)
    else if c == BACKSLASH then
      match rest with
      | [] => .error .invalidArgument        -- consume() returns '\0'
      | e :: rest' =>
        if e == 0 then .error .invalidArgument
        else if e == BACKSLASH then parseQuotedGo fuel rest' (acc ++ [BACKSLASH])
        else if e == DQUOTE then parseQuotedGo fuel rest' (acc ++ [DQUOTE])
        else if e == 110 then parseQuotedGo fuel rest' (acc ++ [NL])
        else if e == 116 then parseQuotedGo fuel rest' (acc ++ [TAB])
        else if e == 97 then parseQuotedGo fuel rest' (acc ++ [7])       -- \a \b \f \r \v (D89)
        else if e == 98 then parseQuotedGo fuel rest' (acc ++ [8])
        else if e == 102 then parseQuotedGo fuel rest' (acc ++ [12])
        else if e == 114 then parseQuotedGo fuel rest' (acc ++ [CR])
        else if e == 118 then parseQuotedGo fuel rest' (acc ++ [11])
        else if isOctal e then
          let v0 : Nat := e.toNat - 48
          match rest' with
          | d1 :: r1 =>
            if isOctal d1 then
              let v1 := v0 * 8 + (d1.toNat - 48)
              match r1 with
              | d2 :: r2 =>
                if isOctal d2 then parseQuotedGo fuel r2 (acc ++ [UInt8.ofNat ((v1 * 8 + (d2.toNat - 48)) % 256)])
                else parseQuotedGo fuel r1 (acc ++ [UInt8.ofNat (v1 % 256)])
              | [] => parseQuotedGo fuel r1 (acc ++ [UInt8.ofNat (v1 % 256)])
            else parseQuotedGo fuel rest' (acc ++ [UInt8.ofNat v0])
          | [] => parseQuotedGo fuel rest' (acc ++ [UInt8.ofNat v0])
        else .error .invalidArgument
    else parseQuotedGo fuel rest (acc ++ [c])

def parseQuotedString (r : Bytes) : Except Exn (Bytes × Bytes) :=
  match r with
  | c :: rest => if c == DQUOTE then parseQuotedGo (r.length + 1) rest [] else parseQuotedGo (r.length + 1) r []
  | [] => .error .invalidArgument

/-- index of the first occurrence -/
def findIdx (c : UInt8) (r : Bytes) : Option Nat :=
  let i := (r.takeWhile (· != c)).length
  if i < r.length then some i else none

/-- `LineParser::parse_file_line(strip, path, timestamp)`: returns (path, Some timestamp when assigned) -/
def parseFileLine (r : Bytes) (strip : Int) : Except Exn (Bytes × Option Bytes) :=
  match r with
  | [] => .ok ([], some [])
  | c :: _ =>
    let res : Except Exn (Bytes × Bytes) :=   -- (path, remaining input at `it`)
      if c == DQUOTE then parseQuotedString r
      else
        -- scan to the first TAB or SP
        let k := (r.takeWhile fun x => x != TAB && x != SP).length
        if k ≥ r.length then .ok (r, [])
        else if r[k]! == TAB then .ok (r.take k, r.drop k)
        else -- a space: look for a TAB after it
          match findIdx TAB (r.drop k) with
          | none => .ok (r.take k, r.drop k)
          | some j => .ok (r.take (k + j), r.drop (k + j))
    match res with
    | .error e => .error e
    | .ok (path, it) =>
      let ts : Option Bytes := if it.length ≥ 2 then some (it.drop 1) else none
      let path' := if path = devNull then path else stripPath path strip
      .ok (path', ts)

/-- `parse_mode`: exactly six characters which `std::stoul(.., &pos, 8)` consumes completely
    (strtoul: optional white space, optional sign, octal digits), truncated to 16 bits -/
def parseMode (s : Bytes) : Nat :=
  if s.length ≠ 6 then 0
  else
    let isSpace (c : UInt8) : Bool := c == 32 || (9 ≤ c && c ≤ 13)
    let s1 := s.dropWhile isSpace
    let (neg, s2) : Bool × Bytes :=
      match s1 with
      | c :: r => if c == 43 then (false, r) else if c == 45 then (true, r) else (false, s1)
      | [] => (false, s1)
    let digits := s2.takeWhile isOctal
    if digits = [] then 0
    else if digits.length ≠ s2.length then 0
    else
      let v := digits.foldl (fun acc c => acc * 8 + (c.toNat - 48)) 0
      if neg then (65536 - v % 65536) % 65536 else v % 65536

/-- `LineParser::parse_git_header_name` (after "diff --git ") -/
def parseGitHeaderName (r : Bytes) (strip : Int) : Except Exn Bytes :=
  match r with
  | c :: _ =>
    if c == DQUOTE then
      match parseQuotedString r with
      | .error e => .error e
      | .ok (name, _) => .ok (stripPath name strip)
    else
      let rec go (fuel : Nat) (r acc : Bytes) : Bytes :=
        match fuel with
        | 0 => acc
        | fuel + 1 =>
          match r with
          | [] => acc
          | c :: rest =>
            match consumeStr (str " b/") r with
            | some _ => acc
            | none => go fuel rest (acc ++ [c])
      -- the name may itself contain " b/": prefer the place where both halves name the same file ("a/X b/X")
      let split : Option Bytes :=
        if (str "a/").isPrefixOf r then
          (List.range r.length).findSome? fun pos =>
            if (str " b/").isPrefixOf (r.drop pos) ∧ (r.take pos).drop 2 = r.drop (pos + 3) then some (r.take pos) else none
        else none
      match split with
      | some name => .ok (stripPath name strip)
      | none => .ok (stripPath (go (r.length + 1) r []) strip)
  | [] => .ok (stripPath [] strip)

/-- `parse_git_extended_info`: (recognised, patch) -/
def parseGitExtendedInfo (r : Bytes) (p : Patch) (strip : Int) : Except Exn (Bool × Patch) :=
  -- not stripping at all keeps the name as it is (a strip of -1 would mean its base name)
  -- any negative strip means the same (the base name), there is nothing to subtract from those (D98: `strip - 1` overflowed for INT_MIN)
  let stripOfName : Int := if strip ≤ 0 then strip else strip - 1
  let parseFilename (r : Bytes) (pfx : String) : Except Exn Bytes :=
    let base : Except Exn Bytes :=
      match r with
      | c :: _ =>
        if c == DQUOTE then
          match parseQuotedString r with
          | .error e => .error e
          | .ok (s, _) => .ok (stripPath s stripOfName)
        else .ok (stripPath r stripOfName)
      | [] => .ok (stripPath r stripOfName)
    match base with
    | .error e => .error e
    | .ok b => .ok (if strip = 0 then str pfx ++ b else b)
  match consumeStr (str "rename from ") r with
  | some r' => (parseFilename r' "a/").map fun n => (true, { p with operation := .rename, oldPath := n })
  | none =>
  match consumeStr (str "rename to ") r with
  | some r' => (parseFilename r' "b/").map fun n => (true, { p with operation := .rename, newPath := n })
  | none =>
  match consumeStr (str "copy to ") r with
  | some r' => (parseFilename r' "b/").map fun n => (true, { p with operation := .copy, newPath := n })
  | none =>
  match consumeStr (str "copy from ") r with
  | some r' => (parseFilename r' "a/").map fun n => (true, { p with operation := .copy, oldPath := n })
  | none =>
  match consumeStr (str "deleted file mode ") r with
  | some r' => .ok (true, { p with operation := .delete, oldMode := parseMode r' })
  | none =>
  match consumeStr (str "new file mode ") r with
  | some r' => .ok (true, { p with operation := .add, newMode := parseMode r' })
  | none =>
  match consumeStr (str "old mode ") r with
  | some r' => .ok (true, { p with oldMode := parseMode r' })
  | none =>
  match consumeStr (str "new mode ") r with
  | some r' => .ok (true, { p with newMode := parseMode r' })
  | none =>
  match consumeStr (str "index ") r with
  | some _ => .ok (true, p)
  | none =>
  match consumeStr (str "GIT binary patch") r with
  | some _ => .ok (false, { p with operation := .binary })
  | none => .ok (false, p)

end PatchModel
