/-
  Model/Parse — src/parser.cpp: the patch stream, range parsers, `parse_patch_header`, the three body
  parsers, `hunk_from_context_parts`, `parse_patch`.
  The stream is the list of lines still unread plus the `File` object's eof/bad flags
  (`seekg` restores the position only, not the flags — as in the code).
-/
import PatchModel.Model.Paths
import PatchModel.Model.Stream
namespace PatchModel

structure PStream where
  rest : List Line
  eof : Bool := false
  bad : Bool := false
  deriving Repr, Inhabited

/-- `File::get_line` -/
def PStream.getLine (s : PStream) : Option Line × PStream :=
  if s.eof then (none, { s with bad := true })
  else if s.bad then (none, s)
  else match s.rest with
    | [] => (none, { s with eof := true })
    | l :: r => if l.newline = .none then (some l, { s with rest := r, eof := true }) else (some l, { s with rest := r })

/-- `File::peek` : next byte, `(char)EOF` = 0xFF at the end -/
def PStream.peek (s : PStream) : UInt8 :=
  match s.rest with
  | [] => 255
  | l :: _ => match l.content with
    | c :: _ => c
    | [] => match l.newline with | .lf => NL | .crlf => CR | .none => 255

def PStream.clear (s : PStream) : PStream := { s with eof := false, bad := false }
def PStream.seek (s : PStream) (pos : List Line) : PStream := { s with rest := pos }

def startsWith (l : Bytes) (p : String) : Bool := (str p).isPrefixOf l
def endsWith (l : Bytes) (p : String) : Bool := (str p).reverse.isPrefixOf l.reverse

/-- `std::string::substr(4, size - 9)` with the `size_t` wrap-around when size < 9 -/
def ctxRangeText (l : Bytes) : Bytes :=
  if l.length < 9 then l.drop 4 else (l.drop 4).take (l.length - 9)

def defaultRange : Range := ⟨-1, -1⟩
def defaultHunk : Hunk := ⟨defaultRange, defaultRange, []⟩

/-- `parse_unified_range(hunk, line)`: the hunk is mutated field by field, also when the parse fails later -/
def parseUnifiedRange (h : Hunk) (line : Bytes) : Bool × Hunk :=
  let consumeRange (r : Range) (inp : Bytes) : Bool × Range × Bytes :=
    let (ok, v, rest) := consumeLineNumber inp r.start
    let r1 : Range := { r with start := v }
    if !ok then (false, r1, rest)
    else match consumeStr [44] rest with
      | some rest2 =>
        let (ok2, c, rest3) := consumeLineNumber rest2 r1.count
        (ok2, { r1 with count := c }, rest3)
      | none => (true, { r1 with count := 1 }, rest)
  match consumeStr (str "@@ -") line with
  | none => (false, h)
  | some r1 =>
    let (ok, oldR, r2) := consumeRange h.old r1
    let h1 := { h with old := oldR }
    if !ok then (false, h1)
    else match consumeStr (str " +") r2 with
      | none => (false, h1)
      | some r3 =>
        let (ok2, newR, r4) := consumeRange h1.new r3
        let h2 := { h1 with new := newR }
        if !ok2 then (false, h2)
        else match consumeStr (str " @@") r4 with
          | none => (false, h2)
          | some _ => (true, h2)

/-- `parse_normal_range(hunk, line)` (as fixed: the number after the first comma is the last old line) -/
def parseNormalRange (h : Hunk) (line : Bytes) : Bool × Hunk :=
  let (ok, os, r1) := consumeLineNumber line h.old.start
  let h1 : Hunk := { h with old := { h.old with start := os } }
  if !ok then (false, h1)
  else
    let (hasComma, r2) := match consumeStr [44] r1 with
      | some r => (true, r)
      | none => (false, r1)
    -- the end of the old range
    let step1 : Option (Hunk × Bytes) :=
      if hasComma then
        let (ok2, e, r3) := consumeLineNumber r2 0
        if !ok2 then none
        else if e < h1.old.start then none
        else some ({ h1 with old := { h1.old with count := e - h1.old.start + 1 } }, r3)
      else some (h1, r2)
    match step1 with
    | none => (false, h1)
    | some (h2, r3) =>
      let (command, r4) : UInt8 × Bytes := match r3 with
        | c :: r => (c, r)
        | [] => (0, [])
      if command != 99 && command != 97 && command != 100 then (false, h2)
      else
        let h3 : Hunk := if !hasComma then { h2 with old := { h2.old with count := if command == 97 then 0 else 1 } } else h2
        let (ok3, ns, r5) := consumeLineNumber r4 h3.new.start
        let h4 : Hunk := { h3 with new := { h3.new with start := ns } }
        if !ok3 then (false, h4)
        else
          let endRes : Option (Int × Bytes) :=
            match consumeStr [44] r5 with
            | some r6 =>
              if hasComma && command != 99 then none
              else if command == 100 then none      -- nothing is left of what a 'd' removes: no range for it in the new file
              else
                let (ok4, e, r7) := consumeLineNumber r6 0
                if !ok4 then none else some (e, r7)
            | none => some (h4.new.start, r5)
          match endRes with
          | none => (false, h4)
          | some (newEnd, r8) =>
            -- a range which ends before it starts has no lines in it (rather than fewer than none)
            let cnt := max (newEnd - h4.new.start + 1) 0
            let cnt' := if command == 100 then cnt - 1 else cnt
            let h5 : Hunk := { h4 with new := { h4.new with count := cnt' } }
            (r8.isEmpty, h5)

/-- `parse_context_range(start, end, text)`: (ok, start, end) with partial mutation -/
def parseContextRange (startV endV : Int) (text : Bytes) : Bool × Int × Int :=
  let (ok, s, r1) := consumeLineNumber text startV
  if !ok then (false, s, endV)
  else match consumeStr [44] r1 with
    | none => (true, s, s)
    | some r2 =>
      let (ok2, e, _) := consumeLineNumber r2 endV
      (ok2, s, e)

/-! ### header scan -/

structure HeaderInfo where
  linesTillFirstHunk : Nat := 0
  format : Format := .unknown
  deriving Repr, Inhabited

structure Parser where
  s : PStream
  lineNo : Nat := 1
  deriving Repr, Inhabited

/-- `Parser::get_line` -/
def Parser.getLine (p : Parser) : Option Line × Parser :=
  match p.s.getLine with
  | (none, s') => (none, { p with s := s' })
  -- the last line of a patch whose final newline went missing is a line like any other: only a line that says so ends without one;
  -- a CR at the very end of the patch is what is left of a CRLF (D85)
  | (some l, s') => (some (if l.newline = .none then
                             (if l.content.getLast? = some CR then { content := l.content.dropLast, newline := .crlf } else { l with newline := .lf })
                           else l), { s := s', lineNo := p.lineNo + 1 })

structure HState where
  par : Parser
  patch : Patch
  thisLooks : Format := .unknown
  lines : Nat := 0
  isGit : Bool := false
  shouldParseBody : Bool := true
  hunk : Hunk := defaultHunk
  ltfh : Nat := 0
  foundFirstHunk : Bool := false

/-- apply the result of `parse_file_line(strip, path, &timestamp)` to a (path, time) pair -/
def assignFileLine (res : Bytes × Option Bytes) (time : Bytes) : Bytes × Bytes :=
  (res.1, match res.2 with | some t => t | none => time)

/-- the look-ahead of the header scan in a context diff: skip lines of the old half, read the new range -/
def ctxLookahead : Nat → Parser → Hunk → Hunk
  | 0, _, h => h
  | fuel + 1, par, h =>
    match par.getLine with
    | (none, _) => h
    | (some l, par') =>
      let a := l.content
      if startsWith a "--- " && endsWith a " ----" then
        let (ok, s, _) := parseContextRange (-1) (-1) (ctxRangeText a)
        if ok then { h with new := { h.new with start := s } } else h
      else if !(startsWith a "- ") && !(startsWith a "  ") && !(startsWith a "! ") && !(startsWith a "\\") then h
      else ctxLookahead fuel par' h

/-- one iteration of the `while (get_line(line))` loop of `parse_patch_header`; `none` = loop left by `break` -/
def headerStep (st : HState) (line : Bytes) (strip : Int) : Except Exn (HState × Bool) :=
  -- returns (state, continueLoop)
  let last := st.thisLooks
  let st := { st with lines := st.lines + 1, thisLooks := Format.unknown }
  let p := st.patch
  -- a line of the first hunk of a unified diff may itself look like a file header ("--- x" removes "-- x"): looked for first
  if (p.format = .unknown ∨ p.format = .unified) ∧ last = .unified ∧
      (startsWith line "+" ∨ startsWith line "-" ∨ startsWith line " " ∨
       -- an unchanged line which is empty may be given as an empty line, if the range has room for an unchanged line at all (D86)
       (line = [] ∧ (0 : Int) < st.hunk.old.count ∧ (0 : Int) < st.hunk.new.count)) then
    .ok ({ st with patch := { p with oldPath := p.newPath, newPath := p.oldPath,
                                     oldTime := p.newTime, newTime := p.oldTime, format := .unified },
                   foundFirstHunk := true }, false)
  else
  let oldHdr : Option Bytes :=
    match (if last != .context then consumeStr (str "*** ") line else none) with
    | some r => some r
    | none => consumeStr (str "+++ ") line
  match oldHdr with
  | some r =>
    (parseFileLine r strip).map fun res =>
      let (pa, ti) := assignFileLine res p.oldTime
      ({ st with patch := { p with oldPath := pa, oldTime := ti } }, true)
  | none =>
  match consumeStr (str "--- ") line with
  | some r =>
    (parseFileLine r strip).map fun res =>
      let (pa, ti) := assignFileLine res p.newTime
      ({ st with patch := { p with newPath := pa, newTime := ti } }, true)
  | none =>
  match consumeStr (str "Index: ") line with
  | some r => (parseFileLine r strip).map fun res => ({ st with patch := { p with indexPath := res.1 } }, true)
  | none =>
  match consumeStr (str "Prereq: ") line with
  -- a word to look for in the file, not the name of one: nothing to strip or to unquote (D90)
  | some r => .ok ({ st with patch := { p with prerequisite := r.takeWhile fun c => c != SP && c != TAB } }, true)
  | none =>
  match consumeStr (str "diff --git ") line with
  | some r =>
    if st.isGit then .ok ({ st with ltfh := st.lines, shouldParseBody := false }, false)
    else (parseGitHeaderName r strip).map fun name =>
      ({ st with patch := { p with oldPath := name, newPath := name, format := .unified }, isGit := true,
                 ltfh := st.lines + 1 }, true)
  | none =>
  let ext : Except Exn (Bool × Patch) := if st.isGit then parseGitExtendedInfo line p strip else .ok (false, p)
  match ext with
  | .error e => .error e
  | .ok (true, p') => .ok ({ st with patch := p', ltfh := st.lines + 1 }, true)
  | .ok (false, p') =>
    let st := { st with patch := p' }
    let p := p'
    -- unified
    let r1 : Option (HState × Bool) × HState :=
      if p.format = .unknown ∨ p.format = .unified then
        let (ok, h') := parseUnifiedRange st.hunk line
        let st' := { st with hunk := h' }
        if ok then (some ({ st' with thisLooks := .unified, ltfh := st.lines }, true), st') else (none, st')
      else (none, st)
    match r1 with
    | (some res, _) => .ok res
    | (none, st) =>
    let r2 : Option (HState × Bool) × HState :=
      if p.format = .unknown ∨ p.format = .normal then
        if last = .normal ∧ (startsWith line "> " ∨ startsWith line "< ") then
          (some ({ st with patch := { p with format := .normal, newPath := [], oldPath := [] }, foundFirstHunk := true }, false), st)
        else
          let (ok, h') := parseNormalRange st.hunk line
          let st' := { st with hunk := h' }
          if ok then (some ({ st' with thisLooks := .normal, ltfh := st.lines }, true), st') else (none, st')
      else (none, st)
    match r2 with
    | (some res, _) => .ok res
    | (none, st) =>
      if p.format = .unknown ∨ p.format = .context then
        if last = .context ∧ startsWith line "*** " then
          -- the old range of the first hunk: its start feeds the Add inference after the loop
          let hunk' : Hunk :=
            if endsWith line " ****" then
              let (ok, s, _) := parseContextRange (-1) (-1) (ctxRangeText line)
              if ok then { st.hunk with old := { st.hunk.old with start := s } } else st.hunk
            else st.hunk
          -- look ahead past the old half for the range of the new file (feeds the Delete inference)
          let hunk'' := ctxLookahead (st.par.s.rest.length + 1) st.par hunk'
          .ok ({ st with patch := { p with format := .context }, hunk := hunk'', foundFirstHunk := true }, false)
        else if startsWith line "***************" then
          .ok ({ st with thisLooks := .context, ltfh := st.lines }, true)
        else .ok (st, true)
      else .ok (st, true)

def headerLoop (strip : Int) : Nat → HState → Except Exn HState
  | 0, st => .ok st
  | fuel + 1, st =>
    match st.par.getLine with
    | (none, par') => .ok { st with par := par' }
    | (some l, par') =>
      match headerStep { st with par := par' } l.content strip with
      | .error e => .error e
      | .ok (st', true) => headerLoop strip fuel st'
      | .ok (st', false) => .ok st'

/-- re-read `n` lines (`while (my_lines > 1) { --my_lines; get_line }`) -/
def skipLines : Nat → Parser → Except Exn Parser
  | 0, p => .ok p
  | n + 1, p => match p.getLine with
    | (none, _) => .error .runtimeError
    | (some _, p') => skipLines n p'

/-- `Parser::parse_patch_header(patch, header_info, strip)` → (should_parse_body, patch, info, parser) -/
def parseHeader (par : Parser) (patch : Patch) (strip : Int) : Except Exn (Bool × Patch × HeaderInfo × Parser) :=
  let start := par.s.rest
  let startLine := par.lineNo
  match headerLoop strip (par.s.rest.length + 2) { par := par, patch := patch } with
  | .error e => .error e
  | .ok st =>
    let p := if st.isGit then { st.patch with format := .git }
             else if !st.foundFirstHunk then { st.patch with format := .unknown }   -- no hunk found: garbage, whatever format was given
             else st.patch
    let par1 : Parser := { s := (st.par.s.clear).seek start, lineNo := startLine }
    match skipLines (st.ltfh - 1) par1 with
    | .error e => .error e
    | .ok par2 =>
      -- a git patch says so if it adds or removes a file; there a range of no lines alone only tells that the file is (was) empty
      let p2 := if p.operation = .change then
                  (if st.hunk.new.start = 0 ∧ (!st.isGit ∨ p.newPath = devNull) then { p with operation := .delete }
                   else if st.hunk.old.start = 0 ∧ (!st.isGit ∨ p.oldPath = devNull) then { p with operation := .add } else p)
                else p
      .ok (st.shouldParseBody, p2, { linesTillFirstHunk := st.ltfh, format := p.format }, par2)

/-! ### unified body -/

structure UState where
  par : Parser
  hunks : List Hunk := []
  hunk : Hunk := defaultHunk
  content : Bool := false      -- State::Content
  oldExp : Int := -1
  newExp : Int := -1

/-- set the terminator of the last hunk line to None -/
def markLastNone (ls : List PatchLine) : List PatchLine :=
  match ls.reverse with
  | [] => []
  -- `mark_as_unterminated`: the CR a line ends in (kept as the CRLF class) is part of a line that has no newline after it
  | pl :: r => (⟨pl.op, ⟨if pl.line.newline = .crlf then pl.line.content ++ [CR] else pl.line.content, .none⟩⟩ :: r).reverse

def unifiedLoop : Nat → UState → Except Exn (Bool × UState)   -- Bool: returned from inside the loop
  | 0, st => .ok (false, st)
  | fuel + 1, st =>
    match st.par.getLine with
    | (none, par') => .ok (false, { st with par := par' })
    | (some l, par') =>
      let st := { st with par := par' }
      if !st.content then
        let (ok, h') := parseUnifiedRange st.hunk l.content
        if ok then unifiedLoop fuel { st with hunk := h', content := true, oldExp := h'.old.count, newExp := h'.new.count }
        else unifiedLoop fuel { st with hunk := h' }
      else
        let line := if l.content.isEmpty then [SP] else l.content
        match line with
        | [] => .error .logicError
        | what :: body =>
          if what != SP && what != MINUS && what != PLUS then .error .parserError
          else
            let st1 := { st with hunk := { st.hunk with lines := st.hunk.lines ++ [⟨what, ⟨body, l.newline⟩⟩] } }
            -- new side
            let st2 : UState :=
              if what != MINUS then
                let ne := st1.newExp - 1
                if ne = 0 ∧ st1.par.s.peek = BACKSLASH then
                  { st1 with newExp := ne, hunk := { st1.hunk with lines := markLastNone st1.hunk.lines }, par := (st1.par.getLine).2 }
                else { st1 with newExp := ne }
              else st1
            let st3 : UState :=
              if what != PLUS then
                let oe := st2.oldExp - 1
                if oe = 0 ∧ st2.par.s.peek = BACKSLASH then
                  { st2 with oldExp := oe, hunk := { st2.hunk with lines := markLastNone st2.hunk.lines }, par := (st2.par.getLine).2 }
                else { st2 with oldExp := oe }
              else st2
            if st3.oldExp = 0 ∧ st3.newExp = 0 then
              let st4 := { st3 with hunks := st3.hunks ++ [st3.hunk], hunk := { st3.hunk with lines := [] } }
              let pos := st4.par.s.rest
              match st4.par.getLine with
              | (none, par5) => .ok (true, { st4 with par := par5 })
              | (some l2, par5) =>
                let (ok, h') := parseUnifiedRange st4.hunk l2.content
                if !ok then
                  .ok (true, { st4 with hunk := h', par := { s := par5.s.seek pos, lineNo := par5.lineNo - 1 } })
                else unifiedLoop fuel { st4 with par := par5, hunk := h', content := true, oldExp := h'.old.count, newExp := h'.new.count }
            else unifiedLoop fuel st3

/-- `Parser::parse_unified_patch` → (hunks, parser) -/
def parseUnifiedBody (par : Parser) : Except Exn (List Hunk × Parser) :=
  match unifiedLoop (par.s.rest.length + 2) { par := par } with
  | .error e => .error e
  | .ok (true, st) => .ok (st.hunks, st.par)
  | .ok (false, st) =>
    if !st.content ∧ st.hunks.isEmpty then .ok (st.hunks, st.par)
    else if st.newExp ≠ 0 then .error .invalidArgument
    else if st.oldExp ≠ 0 then .error .invalidArgument
    else .ok (st.hunks, st.par)

/-! ### context body -/

/-- `append_line` -/
def ctxAppendLine (ls : List PatchLine) (content : Bytes) (nl : NewLine) : Except Exn (List PatchLine) :=
  match content with
  | op :: c1 :: body =>
    if c1 == MINUS then .error .parserError
    else if op != SP && op != PLUS && op != MINUS && op != BANG then .error .parserError
    else .ok (ls ++ [⟨op, ⟨body, nl⟩⟩])
  | _ => .error .invalidArgument

/-- `append_content(lines, start, end)` -/
def ctxAppendContent : Nat → Parser → List PatchLine → Int → Int → Except Exn (List PatchLine × Parser)
  | 0, _, _, _, _ => .error .parserError
  | fuel + 1, par, ls, startL, endL =>
    if startL + (ls.length : Int) ≤ endL then
      match par.getLine with
      | (none, _) => .error .parserError
      | (some l, par') =>
        match ctxAppendLine ls l.content l.newline with
        | .error e => .error e
        | .ok ls' => ctxAppendContent fuel par' ls' startL endL
    else .ok (ls, par)

/-- `check_for_no_newline` -/
def ctxCheckNoNewline (par : Parser) (ls : List PatchLine) : List PatchLine × Parser :=
  if !ls.isEmpty ∧ par.s.peek = BACKSLASH then (markLastNone ls, (par.getLine).2) else (ls, par)

/-- `parse_range` lambda: `none` = not a "--- n ----" line; error = unparsable range -/
def ctxParseNewRange (line : Bytes) (s e : Int) : Except Exn (Option (Int × Int)) :=
  if !(startsWith line "--- ") || !(endsWith line " ----") then .ok none
  else
    let (ok, s', e') := parseContextRange s e (ctxRangeText line)
    if ok then .ok (some (s', e')) else .error .runtimeError

/-- skip to the "*** n,m ****" line; an unreadable range is an error (`std::runtime_error`) -/
def ctxSkipToOldRange : Nat → Parser → Int → Int → Except Exn (Parser × Int × Int)
  | 0, par, s, e => .ok (par, s, e)
  | fuel + 1, par, s, e =>
    match par.getLine with
    | (none, par') => .ok (par', s, e)
    | (some l, par') =>
      if startsWith l.content "*** " && endsWith l.content " ****" then
        let (ok, s', e') := parseContextRange s e (ctxRangeText l.content)
        if ok then .ok (par', s', e') else .error .runtimeError
      else ctxSkipToOldRange fuel par' s e

/-- every line of the new half of a context hunk begins with "  ", "+ " or "! " -/
def isToFileLine (l : Bytes) : Bool :=
  match l with
  | c0 :: c1 :: _ => (c0 == SP || c0 == PLUS || c0 == BANG) && c1 == SP
  | _ => false

/-- `Parser::parse_context_hunk` → (old_lines, old_start, new_lines, new_start, parser) -/
def parseContextHunk (par : Parser) : Except Exn (List PatchLine × Int × List PatchLine × Int × Parser) :=
  let fuel := par.s.rest.length + 2
  match ctxSkipToOldRange fuel par 0 0 with
  | .error e => .error e
  | .ok (par1, oldStart, oldEnd) =>
  match par1.getLine with
  | (none, _) => .error .runtimeError
  | (some l1, par2) =>
    match ctxParseNewRange l1.content 0 0 with
    | .error e => .error e
    | .ok (some (ns, ne)) =>
      -- old half omitted
      (match ctxAppendContent fuel par2 [] ns ne with
       | .error e => .error e
       | .ok (newLines, par3) =>
         let (newLines', par4) := ctxCheckNoNewline par3 newLines
         .ok ([], oldStart, newLines', ns, par4))
    | .ok none =>
      match ctxAppendLine [] l1.content l1.newline with
      | .error e => .error e
      | .ok old1 =>
        match ctxAppendContent fuel par2 old1 oldStart oldEnd with
        | .error e => .error e
        | .ok (oldLines, par3) =>
          let (oldLines', par4) := ctxCheckNoNewline par3 oldLines
          let (l2o, par5) := par4.getLine
          let l2 : Bytes := match l2o with | some l => l.content | none => []
          match ctxParseNewRange l2 0 0 with
          | .error e => .error e
          | .ok none => .error .runtimeError
          | .ok (some (ns, ne)) =>
            let pos := par5.s.rest
            let (l3o, par6) := par5.getLine
            if l3o.isNone then .ok (oldLines', oldStart, [], ns, par6)
            else
              let l3 : Line := match l3o with | some l => l | none => ⟨[], .none⟩
              if startsWith l3.content "**********" then .ok (oldLines', oldStart, [], ns, par6)
              else if !(isToFileLine l3.content) then
                -- not a line of the new half: it is omitted as well; un-read the line
                .ok (oldLines', oldStart, [], ns, { s := par6.s.seek pos, lineNo := par6.lineNo - 1 })
              else
                match ctxAppendLine [] l3.content l3.newline with
                | .error e => .error e
                | .ok new1 =>
                  match ctxAppendContent fuel par6 new1 ns ne with
                  | .error e => .error e
                  | .ok (newLines, par7) =>
                    let (newLines', par8) := ctxCheckNoNewline par7 newLines
                    .ok (oldLines', oldStart, newLines', ns, par8)

/-- `hunk_from_context_parts` -/
def hunkFromContextParts (oldStart : Int) (oldLines : List PatchLine) (newStart : Int) (newLines : List PatchLine) :
    Except Exn Hunk :=
  let rec go : Nat → List PatchLine → List PatchLine → Hunk → Except Exn Hunk
    | 0, _, _, h => .ok h
    | fuel + 1, ol, nl, h =>
      match ol, nl with
      | [], [] => .ok h
      | _, _ =>
        let o? := ol.head?
        let n? := nl.head?
        let addOld (pl : PatchLine) (h : Hunk) : Hunk :=
          { h with lines := h.lines ++ [pl], old := { h.old with count := h.old.count + 1 } }
        let addNew (pl : PatchLine) (h : Hunk) : Hunk :=
          { h with lines := h.lines ++ [pl], new := { h.new with count := h.new.count + 1 } }
        let addBoth (pl : PatchLine) (h : Hunk) : Hunk :=
          { h with lines := h.lines ++ [pl], old := { h.old with count := h.old.count + 1 },
                   new := { h.new with count := h.new.count + 1 } }
        match o?, n? with
        | some o, _ =>
          if o.op == MINUS then go fuel ol.tail nl (addOld o h)
          else match n? with
            | some n =>
              if n.op == PLUS then go fuel ol nl.tail (addNew n h)
              else if o.op == BANG then go fuel ol.tail nl (addOld ⟨MINUS, o.line⟩ h)
              else if n.op == BANG then go fuel ol nl.tail (addNew ⟨PLUS, n.line⟩ h)
              else if o.op == SP && n.op == SP then
                if o.line.content ≠ n.line.content then .error .invalidArgument
                else go fuel ol.tail nl.tail (addBoth o h)
              else if o.op == SP then go fuel ol.tail nl (addBoth o h)
              else if n.op == SP then go fuel ol nl.tail (addBoth n h)
              else .error .invalidArgument
            | none =>
              if o.op == BANG then go fuel ol.tail nl (addOld ⟨MINUS, o.line⟩ h)
              else if o.op == SP then go fuel ol.tail nl (addBoth o h)
              else .error .invalidArgument
        | none, some n =>
          if n.op == PLUS then go fuel ol nl.tail (addNew n h)
          else if n.op == BANG then go fuel ol nl.tail (addNew ⟨PLUS, n.line⟩ h)
          else if n.op == SP then go fuel ol nl.tail (addBoth n h)
          else .error .invalidArgument
        | none, none => .ok h
  go (oldLines.length + newLines.length + 1) oldLines newLines ⟨⟨oldStart, 0⟩, ⟨newStart, 0⟩, []⟩

/-- `Parser::parse_context_patch` (as fixed: another hunk follows only after a stars line or an old range line) -/
def parseContextBody : Nat → Parser → List Hunk → Except Exn (List Hunk × Parser)
  | 0, par, hs => .ok (hs, par)
  | fuel + 1, par, hs =>
    match parseContextHunk par with
    | .error e => .error e
    | .ok (ol, os, nl, ns, par1) =>
      -- a half may only be left out if the other half has no changed ('!') line: every such line has its counterpart there
      if (nl.isEmpty && ol.any (·.op == BANG)) || (ol.isEmpty && nl.any (·.op == BANG)) then .error .invalidArgument else
      match hunkFromContextParts os ol ns nl with
      | .error e => .error e
      | .ok h =>
        let pos := par1.s.rest
        let (lo, par2) := par1.getLine
        let line : Bytes := match lo with | some l => l.content | none => []
        let par3 : Parser := { par2 with s := par2.s.seek pos }
        if !(startsWith line "***************") && !(startsWith line "*** " && endsWith line " ****") then
          .ok (hs ++ [h], par3)
        else parseContextBody fuel par3 (hs ++ [h])

/-! ### normal body -/

/-- read `count` lines starting with `marker` followed by a blank -/
def normalReadSide : Nat → Parser → Int → UInt8 → UInt8 → List PatchLine → Except Exn (List PatchLine × Parser)
  | 0, _, _, _, _, _ => .error .parserError
  | fuel + 1, par, count, marker, op, acc =>
    if count ≤ 0 then .ok (acc, par)
    else match par.getLine with
      | (none, _) => .error .parserError
      | (some l, par') =>
        match l.content with
        | c0 :: c1 :: body =>
          if c0 != marker || !isWs c1 then .error .parserError
          else normalReadSide fuel par' (count - 1) marker op (acc ++ [⟨op, ⟨body, l.newline⟩⟩])
        | _ => .error .parserError

/-- `Parser::parse_normal_patch` (as fixed) -/
def parseNormalBody : Nat → Parser → List Hunk → Except Exn (List Hunk × Parser)
  | 0, par, hs => .ok (hs, par)
  | fuel + 1, par, hs =>
    let pos := par.s.rest
    match par.getLine with
    | (none, par1) => .ok (hs, par1)
    | (some l, par1) =>
      if par1.s.eof || l.content.isEmpty then .ok (hs, par1)
      else
        let (ok, h) := parseNormalRange defaultHunk l.content
        if !ok then
          if hs.isEmpty then .error .invalidArgument
          else .ok (hs, { s := par1.s.seek pos, lineNo := par1.lineNo - 1 })
        else
          let f := par1.s.rest.length + 2
          match normalReadSide f par1 h.old.count 60 MINUS [] with
          | .error e => .error e
          | .ok (olds, par2) =>
            let (ls1, par3) : List PatchLine × Parser :=
              if !olds.isEmpty ∧ par2.s.peek = BACKSLASH then (markLastNone olds, (par2.getLine).2) else (olds, par2)
            let par4 : Parser :=
              if par3.s.peek = MINUS then
                match par3.getLine with
                | (some l, p') => if l.content = str "---" then p' else { s := p'.s.seek par3.s.rest, lineNo := p'.lineNo - 1 }
                | (none, p') => { s := p'.s.seek par3.s.rest, lineNo := p'.lineNo - 1 }
              else par3
            match normalReadSide f par4 h.new.count 62 PLUS ls1 with
            | .error e => .error e
            | .ok (ls2, par5) =>
              let (ls3, par6) : List PatchLine × Parser :=
                if !ls2.isEmpty ∧ par5.s.peek = BACKSLASH then (markLastNone ls2, (par5.getLine).2) else (ls2, par5)
              parseNormalBody fuel par6 (hs ++ [{ h with lines := ls3 }])

/-- `Parser::parse_patch_body` -/
def parseBody (par : Parser) (p : Patch) : Except Exn (Patch × Parser) :=
  let fuel := par.s.rest.length + 2
  match p.format with
  | .unified | .git => (parseUnifiedBody par).map fun (hs, par') => ({ p with hunks := p.hunks ++ hs }, par')
  | .context => (parseContextBody fuel par []).map fun (hs, par') =>
      let p1 := { p with hunks := p.hunks ++ hs }
      -- a first hunk that leaves nothing behind means the file is removed
      let p2 := match p1.hunks with
        | h :: _ => if p1.operation = .change ∧ h.new.start = 0 ∧ h.new.count = 0 then { p1 with operation := .delete } else p1
        | [] => p1
      (p2, par')
  | .normal => (parseNormalBody fuel par []).map fun (hs, par') => ({ p with hunks := p.hunks ++ hs }, par')
  | _ => .error .runtimeError

/-- `parse_patch(file, format, strip)` -/
def parsePatch (bytes : Bytes) (format : Format) (strip : Int) : Except Exn (Patch × Parser) :=
  let par : Parser := { s := { rest := splitLines bytes } }
  match parseHeader par { format := format } strip with
  | .error e => .error e
  | .ok (body, p, _, par1) =>
    if body then parseBody par1 p else .ok (p, par1)

/-- the section loop of `process_patch`, parsing only: all sections of a stream -/
def parseAll (format : Format) (strip : Int) : Nat → Parser → List Patch → Except Exn (List Patch × Parser × Bool)
  | 0, par, acc => .ok (acc, par, true)       -- fuel exhausted: the loop does not terminate
  | fuel + 1, par, acc =>
    if par.s.eof then .ok (acc, par, false)
    else match parseHeader par { format := format } strip with
      | .error e => .error e
      | .ok (body, p, _, par1) =>
        if p.format = .unknown then .ok (acc, par1, false)
        else if body then
          match parseBody par1 p with
          | .error e => .error e
          | .ok (p', par2) => parseAll format strip fuel par2 (acc ++ [p'])
        else parseAll format strip fuel par1 (acc ++ [p])

end PatchModel
