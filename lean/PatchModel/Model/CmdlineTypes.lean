/-
  Model/CmdlineTypes — `CmdLineParser::Option` and `struct Options` (include/patch/cmdline.h, options.h).
-/
import PatchModel.Model.Applier
namespace PatchModel

/-- one row of `s_switches` -/
structure Opt where
  shortName : Int
  longName : Bytes
  hasArg : Bool
  deriving DecidableEq, Repr, Inhabited

inductive OptionalBool | unset | yes | no
  deriving DecidableEq, Repr, Inhabited
inductive ReadOnlyHandling | warn | ignore | fail
  deriving DecidableEq, Repr, Inhabited
inductive QuotingStyle | unset | literal | shell | shellAlways | c
  deriving DecidableEq, Repr, Inhabited

/-- `struct Options` -/
structure Options where
  saveBackup : Bool
  asContext : Bool
  directory : Bytes
  define : Bytes
  asEd : Bool
  patchFile : Bytes
  ignoreWhitespace : Bool
  asNormal : Bool
  ignoreReversed : Bool
  outFile : Bytes
  strip : Int
  maxFuzz : Int
  reverse : Bool
  fileToPatch : Bytes
  rejectFile : Bytes
  force : Bool
  batch : Bool
  showHelp : Bool
  showVersion : Bool
  asUnified : Bool
  verbose : Bool
  dryRun : Bool
  posix : Bool
  backupIfMismatch : OptionalBool
  removeEmptyFiles : OptionalBool
  newlineOutput : NewlineOutput
  rejectFormat : RejectFormat
  readOnly : ReadOnlyHandling
  quotingStyle : QuotingStyle
  backupSuffix : Bytes
  backupPrefix : Bytes
  deriving DecidableEq, Repr, Inhabited

end PatchModel
