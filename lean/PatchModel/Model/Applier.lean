/-
  Model/Applier — src/applier.cpp: LineWriter, write_hunk, write_define_hunk, reverse,
  check_how_to_handle_reversed_patch, RejectWriter, apply_patch.
  The output file is a `List Line` (what `LineWriter << line` was called with, in order); `render`
  turns it into bytes for a `--newline-output` mode. Messages are structured events.
-/
import PatchModel.Model.Locator
import PatchModel.Model.Format
namespace PatchModel

inductive NewlineOutput | native | lf | crlf | keep
  deriving DecidableEq, Repr, Inhabited

inductive RejectFormat | context | unified | default
  deriving DecidableEq, Repr, Inhabited

/-- the fields of `Options` that `apply_patch` reads -/
structure ApplyOpts where
  reverse : Bool := false          -- -R
  ignoreReversed : Bool := false   -- -N
  batch : Bool := false            -- -t
  force : Bool := false            -- -f
  ignoreWhitespace : Bool := false -- -l
  maxFuzz : Int := 2               -- -F
  define : Bytes := []             -- -D
  newlineOutput : NewlineOutput := .native
  rejectFormat : RejectFormat := .default
  verbose : Bool := false
  deriving Repr, Inhabited

/-- `LineWriter::operator<<(NewLine)` -/
def renderNewline (mode : NewlineOutput) : NewLine → Bytes
  | .none => []
  | nl =>
    match mode with
    | .native | .lf => [NL]
    | .crlf => [CR, NL]
    | .keep => if nl = .crlf then [CR, NL] else [NL]

/-- `LineWriter::operator<<(const Line&)` -/
def renderLine (mode : NewlineOutput) (l : Line) : Bytes := l.content ++ renderNewline mode l.newline

/-- One item written to the output file, tagged with where it came from (the tag is ghost state: it does
    not influence the bytes, it lets the theorems speak about "original line i appears exactly once"). -/
inductive Out
  | fromFile (i : Nat) (l : Line)   -- `output << lines.at(i)` / `lines[i]`
  | fromPatch (l : Line)            -- `output << patch_line.line`
  | directive (l : Line)            -- -D: a preprocessor directive, or a bare terminator (empty content)
  deriving DecidableEq, Repr, Inhabited

def Out.line : Out → Line
  | .fromFile _ l => l
  | .fromPatch l => l
  | .directive l => l

def renderLines (mode : NewlineOutput) (ls : List Line) : Bytes := ls.flatMap (renderLine mode)

/-- a bare `output << last_terminator` of `write_define_hunk` (the pseudo line ⟨"", t⟩) -/
def Out.isBare : Out → Bool
  | .directive l => l.content.isEmpty
  | _ => false

/-- `LineWriter::terminate_last_line` (D97): only the last line of a file may be missing its newline; if more is written after a line which
    does, a newline is written first (`*this << NewLine::LF`, the pseudo line ⟨"", lf⟩). A bare terminator written by `write_define_hunk`
    itself resets the flag without anything being added. -/
def terminateInner : List Out → List Out
  | [] => []
  | [o] => [o]
  | o :: o2 :: rest =>
    if o.line.newline = .none && !o2.isBare then o :: Out.directive ⟨[], .lf⟩ :: terminateInner (o2 :: rest)
    else o :: terminateInner (o2 :: rest)

def render (mode : NewlineOutput) (os : List Out) : Bytes := renderLines mode ((terminateInner os).map Out.line)

/-- `for (; i < j; ++i) output << lines.at(i)` as tagged items -/
def copyRange (file : List Line) (i n : Nat) : List Out :=
  ((file.drop i).take n).zipIdx.map fun (l, k) => Out.fromFile (i + k) l

/-- `write_hunk` without -D: emitted lines and the new cursor; `none` = `lines.at` threw std::out_of_range -/
def writeHunk (file : List Line) : List PatchLine → Nat → Option (List Out × Nat)
  | [], cur => some ([], cur)
  | pl :: rest, cur =>
    if pl.op == SP then
      -- the file may end before the hunk does if fuzz ignores the lines at the end of the hunk (D99)
      if cur == file.length then writeHunk file rest cur else
      match file[cur]? with
      | none => none
      | some l => (writeHunk file rest (cur + 1)).map fun (o, c) => (Out.fromFile cur l :: o, c)
    else if pl.op == PLUS then
      (writeHunk file rest cur).map fun (o, c) => (Out.fromPatch pl.line :: o, c)
    else if pl.op == MINUS then writeHunk file rest (cur + 1)
    else writeHunk file rest cur

inductive DefState | outside | inIfndef | inIfdef | inElseOfIfndef | inElseOfIfdef
  deriving DecidableEq, Repr, Inhabited

/-- `terminator_of` -/
def terminatorOf (l : Line) : NewLine := if l.newline = .none then .lf else l.newline

/-- writer state of `write_define_hunk`: emitted items (reversed), `last_terminator`, `last_line_unterminated` -/
structure DefW where
  out : List Out := []     -- in order
  lastTerm : NewLine := .lf
  lastUnterm : Bool := false

/-- `write_directive`; a bare `output << last_terminator` is the pseudo line ⟨"", t⟩ (same bytes) -/
def DefW.directive (w : DefW) (text : Bytes) (t : NewLine) : DefW :=
  let out := if w.lastUnterm then w.out ++ [.directive ⟨[], w.lastTerm⟩] else w.out
  { w with out := out ++ [.directive ⟨text, t⟩], lastUnterm := false }

/-- `write_line` -/
def DefW.line (w : DefW) (o : Out) : DefW :=
  let out := if w.lastUnterm then w.out ++ [.directive ⟨[], w.lastTerm⟩] else w.out
  { out := out ++ [o], lastTerm := terminatorOf o.line, lastUnterm := o.line.newline = .none }

def dIfdef (sym : Bytes) : Bytes := str "#ifdef " ++ sym
def dIfndef (sym : Bytes) : Bytes := str "#ifndef " ++ sym
def dElse : Bytes := str "#else"
def dEndif : Bytes := str "#endif"

/-- the loop of `write_define_hunk` -/
def defineLoop (file : List Line) (sym : Bytes) : List PatchLine → Nat → DefState → DefW → Option (DefW × Nat × DefState)
  | [], cur, st, w => some (w, cur, st)
  | pl :: rest, cur, st, w =>
    if pl.op == SP then
      -- the file may end before the hunk does if fuzz ignores the lines at the end of the hunk (D99)
      if cur == file.length then defineLoop file sym rest cur st w else
      match file[cur]? with
      | none => none
      | some l =>
        let w1 := if st ≠ .outside then w.directive dEndif (terminatorOf l) else w
        defineLoop file sym rest (cur + 1) .outside (w1.line (.fromFile cur l))
    else if pl.op == PLUS then
      let (w1, st1) :=
        if st = .outside then (w.directive (dIfdef sym) (terminatorOf pl.line), DefState.inIfdef)
        else if st = .inIfndef then (w.directive dElse (terminatorOf pl.line), DefState.inElseOfIfndef)
        else if st = .inElseOfIfdef then
          ((w.directive dEndif (terminatorOf pl.line)).directive (dIfdef sym) (terminatorOf pl.line), DefState.inIfdef)
        else (w, st)
      defineLoop file sym rest cur st1 (w1.line (.fromPatch pl.line))
    else if pl.op == MINUS then
      match file[cur]? with
      | none => none
      | some l =>
        let (w1, st1) :=
          if st = .outside then (w.directive (dIfndef sym) (terminatorOf l), DefState.inIfndef)
          else if st = .inIfdef then (w.directive dElse (terminatorOf l), DefState.inElseOfIfdef)
          else if st = .inElseOfIfndef then
            ((w.directive dEndif (terminatorOf l)).directive (dIfndef sym) (terminatorOf l), DefState.inIfndef)
          else (w, st)
        defineLoop file sym rest (cur + 1) st1 (w1.line (.fromFile cur l))
    else defineLoop file sym rest cur st w

/-- `write_define_hunk` -/
def writeDefineHunk (file : List Line) (sym : Bytes) (ls : List PatchLine) (start : Nat) : Option (List Out × Nat) :=
  match defineLoop file sym ls start .outside {} with
  | none => none
  | some (w, cur, st) =>
    let w' := if st ≠ .outside then w.directive dEndif w.lastTerm else w
    some (w'.out, cur)

/-- `write_hunk` (dispatch on `define.empty()`) -/
def writeHunkD (file : List Line) (define : Bytes) (ls : List PatchLine) (start : Nat) : Option (List Out × Nat) :=
  if define ≠ [] then writeDefineHunk file define ls start else writeHunk file ls start

/-- `reverse(Hunk&)` -/
def reverseHunk (h : Hunk) : Hunk :=
  { old := h.new, new := h.old,
    lines := h.lines.map fun pl =>
      if pl.op == PLUS then { pl with op := MINUS }
      else if pl.op == MINUS then { pl with op := PLUS }
      else pl }

/-- `reverse(Patch&)` -/
def reversePatch (p : Patch) : Patch :=
  { p with
    operation := (match p.operation with | .delete => .add | .add => .delete | o => o),
    oldPath := p.newPath, newPath := p.oldPath,
    oldTime := p.newTime, newTime := p.oldTime,
    oldMode := p.newMode, newMode := p.oldMode,
    hunks := p.hunks.map reverseHunk }

inductive ReverseHandling | reverse | ignore | applyAnyway
  deriving DecidableEq, Repr, Inhabited

/-- structured rendering of what apply_patch prints -/
inductive Msg
  | hunk (num : Nat) (kind : String) (at_ : Int) (fuzz : Int) (offset : Int)   -- print_hunk_statistics
  | reversedDetected (unreversed : Bool)
  | assumingR
  | skippingPatch
  | asked (q : String)
  deriving DecidableEq, Repr, Inhabited

/-- `check_how_to_handle_reversed_patch`. `tty`: answers available on /dev/tty (`none` = no tty: system_error).
    Each answer is the truth value `check_with_user` returns. -/
def checkHowToHandleReversed (o : ApplyOpts) (tty : Option (List Bool)) :
    Except Exn (ReverseHandling × List Msg × Option (List Bool)) :=
  if !o.ignoreReversed then
    if o.batch then .ok (.reverse, [.assumingR], tty)
    else match tty with
      | none => .error .systemError
      | some [] => .ok (.ignore, [.asked "Assume -R?", .asked "Apply anyway?", .skippingPatch], some [])
      | some (a1 :: r1) =>
        if a1 then .ok (.reverse, [.asked "Assume -R?"], some r1)
        else match r1 with
          | [] => .ok (.ignore, [.asked "Assume -R?", .asked "Apply anyway?", .skippingPatch], some [])
          | a2 :: r2 =>
            if a2 then .ok (.applyAnyway, [.asked "Assume -R?", .asked "Apply anyway?"], some r2)
            else .ok (.ignore, [.asked "Assume -R?", .asked "Apply anyway?", .skippingPatch], some r2)
  else .ok (.ignore, [.skippingPatch], tty)

/-- `RejectWriter::should_write_as_unified` -/
def rejectAsUnified (fmt : RejectFormat) (pf : Format) : Bool :=
  fmt = .unified || (fmt = .default && (pf = .unified || pf = .git))

/-- `RejectWriter::write_reject_file(hunk)`; `n` = m_rejected_hunks before the call -/
def writeReject (p : Patch) (fmt : RejectFormat) (n : Nat) (h : Hunk) : Except Exn Bytes :=
  if rejectAsUnified fmt p.format then
    .ok ((if n = 0 then writeHeaderUnified p else []) ++ writeHunkUnified h)
  else
    match writeHunkContext h with
    | .error e => .error e
    | .ok b => .ok ((if n = 0 then writeHeaderContext p else str "***************\n") ++ b)

/-- loop state of `apply_patch` -/
structure AState where
  out : List Out := []             -- items written to out_file so far
  cursor : Nat := 0                -- line_number (relative to the old file)
  offNew : Int := 0                -- offset_old_lines_to_new
  offErr : Int := 0                -- offset_error
  skip : Bool := false             -- skip_remaining_hunks
  perfect : Bool := true           -- all_hunks_applied_perfectly
  rejBytes : Bytes := []           -- reject file content
  rejected : List (Nat × Hunk) := []  -- (index, hunk as written to the reject file)
  applied : List (Nat × Location) := []  -- (index, where) of the hunks written to the output
  msgs : List Msg := []
  tty : Option (List Bool) := none
  deriving Inhabited

structure ApplyResult where
  out : List Out
  rejBytes : Bytes
  failed : Nat
  skipped : Bool
  perfect : Bool
  rejected : List (Nat × Hunk)
  applied : List (Nat × Location)
  msgs : List Msg
  patch : Patch                 -- the patch as mutated (reversed) by apply_patch
  tty : Option (List Bool)

def shouldCheckReversed (loc : Option Location) (o : ApplyOpts) : Bool :=
  match loc with
  | some l => if l.offset = 0 ∧ l.fuzz = 0 then false else !o.force
  | none => !o.force

def isPerfect (loc : Option Location) : Bool :=
  match loc with
  | some l => l.fuzz == 0 && l.offset == 0
  | none => false

/-- `print_hunk_statistics` -/
def hunkMsg (num : Nat) (skipped : Bool) (loc : Option Location) (h : Hunk) (offNew offErr : Int) : Msg :=
  match loc with
  | some l => .hunk (num + 1) (if skipped then "skipped" else "succeeded") (l.line + offNew + 1) l.fuzz offErr
  | none => .hunk (num + 1) (if skipped then "skipped" else "FAILED") (expectedLine h + offNew) 0 0

/-- the part of one loop iteration after the location (and the reversed-patch probe) is settled -/
def finishHunk (file : List Line) (o : ApplyOpts) (p : Patch) (s : AState) (num : Nat) (h : Hunk)
    (loc : Option Location) : Except Exn AState :=
  let perfectH := isPerfect loc
  let stage1 : Except Exn AState :=
    match (if s.skip then none else loc) with
    | some l =>
      let offErr := s.offErr + l.offset
      let target := l.line.toNat
      let copied := copyRange file s.cursor (target - s.cursor)
      -- `lines.at` in the copy loop: throws when the location is beyond the file
      if target > s.cursor ∧ target > file.length then .error .outOfRange
      else
        match writeHunkD file o.define h.lines target with
        | none => .error .outOfRange
        | some (emitted, cur) =>
          .ok { s with out := s.out ++ copied ++ emitted, cursor := cur, offErr := offErr,
                       applied := s.applied ++ [(num, l)] }
    | none =>
      let h' : Hunk := { h with new := { h.new with start := h.new.start + s.offNew },
                                old := { h.old with start := h.old.start + s.offNew } }
      match writeReject p o.rejectFormat s.rejected.length h' with
      | .error e => .error e
      | .ok b => .ok { s with rejBytes := s.rejBytes ++ b, rejected := s.rejected ++ [(num, h')] }
  match stage1 with
  | .error e => .error e
  | .ok s1 =>
    -- NOTE: the statistics are printed with the hunk as shifted for the reject file
    let hPrinted : Hunk :=
      match (if s.skip then none else loc) with
      | some _ => h
      | none => { h with old := { h.old with start := h.old.start + s.offNew } }
    let s2 := { s1 with perfect := s1.perfect && perfectH }
    let s3 := if o.verbose || (!perfectH && !s.skip) then
                { s2 with msgs := s2.msgs ++ [hunkMsg num s.skip loc hPrinted s.offNew s2.offErr] }
              else s2
    let s4 := if !s.skip && loc.isSome then { s3 with offNew := s3.offNew + (h.new.count - h.old.count) } else s3
    .ok s4

/-- the hunk loop for hunks 1.. (no reversed probe) -/
def applyRest (file : List Line) (o : ApplyOpts) (p : Patch) : AState → Nat → List Hunk → Except Exn AState
  | s, _, [] => .ok s
  | s, num, h :: hs =>
    let loc := locateHunk file h o.ignoreWhitespace s.offErr o.maxFuzz s.cursor
    match finishHunk file o p s num h loc with
    | .error e => .error e
    | .ok s' => applyRest file o p s' (num + 1) hs

/-- `apply_patch` -/
def applyPatch (file : List Line) (p0 : Patch) (o : ApplyOpts) (tty : Option (List Bool)) : Except Exn ApplyResult :=
  let p := if o.reverse then reversePatch p0 else p0
  let s0 : AState := { tty := tty }
  let finish (p : Patch) (s : AState) : ApplyResult :=
    { out := s.out ++ copyRange file s.cursor (file.length - s.cursor), rejBytes := s.rejBytes, failed := s.rejected.length,
      skipped := s.skip, perfect := s.perfect, rejected := s.rejected, applied := s.applied,
      msgs := s.msgs, patch := p, tty := s.tty }
  match p.hunks with
  | [] => .ok (finish p s0)
  | h0 :: rest =>
    let loc := locateHunk file h0 o.ignoreWhitespace 0 o.maxFuzz 0
    if shouldCheckReversed loc o then
      let hr := reverseHunk h0
      let rloc := locateHunk file hr o.ignoreWhitespace 0 o.maxFuzz 0
      -- a reversed hunk without old lines (the reversal of a pure removal) is "found" wherever it says: no evidence, unless the hunk
      -- itself was not found at all
      let suspicious := (hr.old.count != 0 && isPerfect rloc) || (loc.isNone && rloc.isSome)
      let decided : Except Exn (ReverseHandling × List Msg × Option (List Bool)) :=
        if suspicious then
          match checkHowToHandleReversed o tty with
          | .error e => .error e
          | .ok (rh, ms, tty') => .ok (rh, Msg.reversedDetected o.reverse :: ms, tty')
        else .ok (.applyAnyway, [], tty)
      match decided with
      | .error e => .error e
      | .ok (rh, ms, tty') =>
        let s1 : AState := { s0 with msgs := ms, tty := tty' }
        match rh with
        | .reverse =>
          let rest' := rest.map reverseHunk
          -- `reverse(hunk); reverse(patch)`: every hunk once more or for the first time, and the header (operation, names, modes)
          let p' := reversePatch p
          (match finishHunk file o p' s1 0 hr rloc with
           | .error e => .error e
           | .ok s2 => match applyRest file o p' s2 1 rest' with
             | .error e => .error e
             | .ok s3 => .ok (finish p' s3))
        | .ignore =>
          let s1' := { s1 with skip := true }
          (match finishHunk file o p s1' 0 h0 loc with
           | .error e => .error e
           | .ok s2 => match applyRest file o p s2 1 rest with
             | .error e => .error e
             | .ok s3 => .ok (finish p s3))
        | .applyAnyway =>
          (match finishHunk file o p s1 0 h0 loc with
           | .error e => .error e
           | .ok s2 => match applyRest file o p s2 1 rest with
             | .error e => .error e
             | .ok s3 => .ok (finish p s3))
    else
      match finishHunk file o p s0 0 h0 loc with
      | .error e => .error e
      | .ok s2 => match applyRest file o p s2 1 rest with
        | .error e => .error e
        | .ok s3 => .ok (finish p s3)

end PatchModel
