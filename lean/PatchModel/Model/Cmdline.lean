/-
  Model/Cmdline — src/cmdline.cpp (`CmdLineParser::parse`, `parse_short_option`, `parse_long_option`) and
  src/options.cpp (`OptionHandler::process_option`, `stoi`, the enumerated-value options, operands,
  `apply_defaults`).  `argv` is argv[1..]; the environment is the two variables the code reads.
-/
import PatchModel.Model.CmdlineTypes
import PatchModel.Model.Gen.OptionsTable
import PatchModel.Model.Gen.Defaults
namespace PatchModel

/-- one `handler.process_option(short_name, value)` call; operands use the code '?' = 63 -/
abbrev OptCall := Int × Bytes

def OPERAND : Int := 63
def EQ : UInt8 := 61

/-- signed `char` value of a byte, as compared with `Option::short_name` -/
def charVal (c : UInt8) : Int := if c.toNat < 128 then c.toNat else (c.toNat : Int) - 256

/-- `parse_short_option` for the characters after the leading '-'. `next` = argv[i+1..].
    Returns the calls made and how many following arguments were consumed (0 or 1). -/
def parseShort (table : List Opt) : Bytes → List Bytes → Except Exn (List OptCall × Nat)
  | [], _ => .ok ([], 0)
  | c :: rest, next =>
    match table.find? (fun o => o.shortName == charVal c) with
    | none => .error .cmdlineError
    | some o =>
      if o.hasArg then
        if rest.isEmpty then
          match next with
          | [] => .error .cmdlineError        -- "option missing operand"
          | a :: _ => .ok ([(o.shortName, a)], 1)
        else .ok ([(o.shortName, rest)], 0)
      else
        match parseShort table rest next with
        | .error e => .error e
        | .ok (calls, n) => .ok ((o.shortName, []) :: calls, n)

/-- `parse_long_option` -/
def parseLong (table : List Opt) (arg : Bytes) (next : List Bytes) : Except Exn (List OptCall × Nat) :=
  let key := arg.takeWhile (· != EQ)
  let hasSep := key.length < arg.length
  let value := arg.drop (key.length + 1)
  let handle (o : Opt) : Except Exn (List OptCall × Nat) :=
    if !o.hasArg then
      if hasSep then .error .cmdlineError else .ok ([(o.shortName, [])], 0)
    else if hasSep then .ok ([(o.shortName, value)], 0)
    else match next with
      | [] => .error .cmdlineError
      | a :: _ => .ok ([(o.shortName, a)], 1)
  match table.find? (fun o => o.longName == key) with
  | some o => handle o
  | none =>
    match table.filter (fun o => key.isPrefixOf o.longName) with
    | [] => .error .cmdlineError         -- unrecognized option
    | [o] => handle o
    | _ => .error .cmdlineError          -- ambiguous

/-- `CmdLineParser::parse`: the sequence of `process_option` calls made, and the parse error that ended it (if any).
    The handler is called as parsing proceeds, so calls made before a parse error are processed first (an error
    raised by the handler for one of them wins over the later parse error). -/
def parseArgs (table : List Opt) : Nat → List Bytes → List OptCall × Option Exn
  | 0, _ => ([], none)
  | _ + 1, [] => ([], none)
  | fuel + 1, arg :: rest =>
    if arg.head? != some MINUS || arg == [MINUS] then
      let (cs, e) := parseArgs table fuel rest
      ((OPERAND, arg) :: cs, e)
    else if arg == [MINUS, MINUS] then (rest.map fun a => (OPERAND, a), none)
    else
      let r := if arg[1]? == some MINUS then parseLong table arg rest else parseShort table (arg.drop 1) rest
      match r with
      | .error e => ([], some e)
      | .ok (calls, used) =>
        let (cs, e) := parseArgs table fuel (rest.drop used)
        (calls ++ cs, e)

/-! ### OptionHandler -/

def isSpaceC (c : UInt8) : Bool := c == 32 || (9 ≤ c && c ≤ 13)

/-- `OptionHandler::stoi`: `std::stoi` (white space, sign, digits; 32-bit range) with the whole string consumed -/
def stoi (s : Bytes) : Except Exn Int :=
  -- white space in front of a number is skipped by std::stoi, but is no part of a number: refused before std::stoi is called
  if (match s with | c :: _ => isSpaceC c | [] => false) then .error .cmdlineError else
  let s1 := s.dropWhile isSpaceC
  let (neg, s2) : Bool × Bytes := match s1 with
    | c :: r => if c == 43 then (false, r) else if c == 45 then (true, r) else (false, s1)
    | [] => (false, s1)
  let digits := s2.takeWhile (fun c => 48 ≤ c && c ≤ 57)
  if digits.isEmpty then .error .cmdlineError
  else
    let v : Int := digits.foldl (fun acc c => acc * 10 + ((c.toNat - 48 : Nat) : Int)) 0
    let v := if neg then -v else v
    if v < -2147483648 ∨ v > 2147483647 then .error .outOfRange
    else if digits.length ≠ s2.length then .error .cmdlineError
    else .ok v

structure HandlerState where
  o : Options
  positional : Nat := 0

/-- `OptionHandler::process_option` -/
def processOption (st : HandlerState) (call : OptCall) : Except Exn HandlerState :=
  let o := st.o
  let v := call.2
  let set (o' : Options) : Except Exn HandlerState := .ok { st with o := o' }
  match call.1 with
  | 66 => set { o with backupPrefix := v }
  | 68 => set { o with define := v }
  | 69 => set { o with removeEmptyFiles := .yes }
  | 70 => (stoi v).bind fun n => set { o with maxFuzz := n }
  | 78 => set { o with ignoreReversed := true }
  | 82 => set { o with reverse := true }
  | 98 => set { o with saveBackup := true }
  | 99 => set { o with asContext := true }
  | 100 => set { o with directory := v }
  | 101 => set { o with asEd := true }
  | 102 => set { o with force := true }
  | 104 => set { o with showHelp := true }
  | 105 => set { o with patchFile := v }
  | 108 => set { o with ignoreWhitespace := true }
  | 110 => set { o with asNormal := true }
  | 111 => set { o with outFile := v }
  | 112 => (stoi v).bind fun n => set { o with strip := n }
  | 114 => set { o with rejectFile := v }
  | 116 => set { o with batch := true }
  | 117 => set { o with asUnified := true }
  | 118 => set { o with showVersion := true }
  | 122 => set { o with backupSuffix := v }
  | 128 =>
    if v == str "native" then set { o with newlineOutput := .native }
    else if v == str "lf" then set { o with newlineOutput := .lf }
    else if v == str "crlf" then set { o with newlineOutput := .crlf }
    else if v == str "preserve" then set { o with newlineOutput := .keep }
    else .error .cmdlineError
  | 129 =>
    if v == str "warn" then set { o with readOnly := .warn }
    else if v == str "ignore" then set { o with readOnly := .ignore }
    else if v == str "fail" then set { o with readOnly := .fail }
    else .error .cmdlineError
  | 130 =>
    if v == str "context" then set { o with rejectFormat := .context }
    else if v == str "unified" then set { o with rejectFormat := .unified }
    else .error .cmdlineError
  | 131 => set { o with verbose := true }
  | 132 => set { o with dryRun := true }
  | 133 => set { o with backupIfMismatch := .yes }
  | 134 => set { o with backupIfMismatch := .no }
  | 135 => set { o with posix := true }
  | 136 =>
    if v == str "literal" then set { o with quotingStyle := .literal }
    else if v == str "shell" then set { o with quotingStyle := .shell }
    else if v == str "shell-always" then set { o with quotingStyle := .shellAlways }
    else if v == str "c" then set { o with quotingStyle := .c }
    else .error .cmdlineError
  | _ =>
    -- process_operand
    if st.positional = 2 then .error .cmdlineError
    else if st.positional = 0 then .ok { o := { o with fileToPatch := v }, positional := 1 }
    else .ok { o := { o with patchFile := v }, positional := st.positional + 1 }

def foldCalls : HandlerState → List OptCall → Except Exn HandlerState
  | st, [] => .ok st
  | st, c :: cs => match processOption st c with
    | .error e => .error e
    | .ok st' => foldCalls st' cs

/-- the environment as the code sees it -/
structure Env where
  posixlyCorrect : Bool := false         -- getenv("POSIXLY_CORRECT") != nullptr
  quotingStyle : Option Bytes := none    -- getenv("QUOTING_STYLE")

/-- `apply_defaults` = `apply_environment_defaults` then `apply_posix_defaults` -/
def applyDefaults (o : Options) (env : Env) : Options :=
  let o1 := if !o.posix then { o with posix := env.posixlyCorrect } else o
  let o2 :=
    if o1.quotingStyle = .unset then
      match env.quotingStyle with
      | none => { o1 with quotingStyle := .shell }
      | some v =>
        if v == str "literal" then { o1 with quotingStyle := .literal }
        else if v == str "shell" then { o1 with quotingStyle := .shell }
        else if v == str "shell-always" then { o1 with quotingStyle := .shellAlways }
        else if v == str "c" then { o1 with quotingStyle := .c }
        else { o1 with quotingStyle := .shell }
    else o1
  let fix (b : OptionalBool) : OptionalBool := if b = .unset then (if o2.posix then .no else .yes) else b
  { o2 with backupIfMismatch := fix o2.backupIfMismatch, removeEmptyFiles := fix o2.removeEmptyFiles }

/-- what `main` does before `process_patch`: parse, fold, defaults -/
def commandLine (table : List Opt) (argv : List Bytes) (env : Env) : Except Exn Options :=
  let (calls, perr) := parseArgs table (argv.length + 1) argv
  match foldCalls { o := defaultOptions } calls with
  | .error e => .error e
  | .ok st =>
    match perr with
    | some e => .error e
    | none => .ok (applyDefaults st.o env)

end PatchModel
