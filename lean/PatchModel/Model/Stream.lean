/-
  Model/Stream — src/file.cpp `File::get_line` and the way patch.cpp reads whole files
  (`file_as_lines`): bytes -> lines.
-/
import PatchModel.Model.Basic
namespace PatchModel

/-- what `get_line` returns for the bytes `cur` that preceded a '\n' -/
def mkLine (cur : Bytes) : Line :=
  if cur.getLast? = some CR then ⟨cur.dropLast, .crlf⟩ else ⟨cur, .lf⟩

/-- `file_as_lines`: repeated `get_line` until it returns false. `cur` = bytes of the line being read. -/
def splitLinesGo (cur : Bytes) : Bytes → List Line
  | [] => if cur = [] then [] else [⟨cur, .none⟩]
  | c :: rest => if c == NL then mkLine cur :: splitLinesGo [] rest else splitLinesGo (cur ++ [c]) rest

def splitLines (bs : Bytes) : List Line := splitLinesGo [] bs

end PatchModel
