/-
  Model/Basic — data types of include/patch/hunk.h, include/patch/file.h and the two line
  comparison functions of src/locator.cpp (`matches_ignoring_whitespace`, `matches`).
  Core Lean only (no Mathlib) so that the driver links as a `lean_exe`.
-/
namespace PatchModel

abbrev Bytes := List UInt8

/-- `enum class NewLine { LF, CRLF, None }` (file.h) -/
inductive NewLine | lf | crlf | none
  deriving DecidableEq, Repr, Inhabited

/-- `struct Line` (hunk.h): content without its terminator + the terminator class -/
structure Line where
  content : Bytes
  newline : NewLine
  deriving DecidableEq, Repr, Inhabited

/-- `struct PatchLine`: operation byte (' ', '+', '-' for well-formed hunks) and the line -/
structure PatchLine where
  op : UInt8
  line : Line
  deriving DecidableEq, Repr, Inhabited

structure Range where
  start : Int
  count : Int
  deriving DecidableEq, Repr, Inhabited

structure Hunk where
  old : Range
  new : Range
  lines : List PatchLine
  deriving DecidableEq, Repr, Inhabited

/-- `enum class Format` -/
inductive Format | context | unified | git | ed | normal | unknown
  deriving DecidableEq, Repr, Inhabited

/-- `enum class Operation` -/
inductive Operation | change | rename | copy | delete | add | binary
  deriving DecidableEq, Repr, Inhabited

/-- `struct Patch` -/
structure Patch where
  format : Format := .unknown
  operation : Operation := .change
  indexPath : Bytes := []
  prerequisite : Bytes := []
  oldPath : Bytes := []
  newPath : Bytes := []
  oldTime : Bytes := []
  newTime : Bytes := []
  oldMode : Nat := 0
  newMode : Nat := 0
  hunks : List Hunk := []
  deriving DecidableEq, Repr, Inhabited

def SP : UInt8 := 32
def TAB : UInt8 := 9
def PLUS : UInt8 := 43
def MINUS : UInt8 := 45
def BANG : UInt8 := 33
def NL : UInt8 := 10
def CR : UInt8 := 13

/-- `is_whitespace` (utils.h) -/
def isWs (c : UInt8) : Bool := c == 32 || c == 9

def dropWs (l : Bytes) : Bytes := l.dropWhile isWs

theorem dropWs_length_le (l : Bytes) : (dropWs l).length ≤ l.length := by
  unfold dropWs
  induction l with
  | nil => simp
  | cons a l ih =>
    simp only [List.dropWhile]
    split
    · simp only [List.length_cons]; omega
    · simp

/-- model of `matches_ignoring_whitespace(as, bs)` (src/locator.cpp): two cursors, driven by `bs`. -/
def miw : Bytes → Bytes → Bool
  | as, [] =>
    match as with
    | [] => true
    | a :: as' => if isWs a then (dropWs as').isEmpty else false
  | as, b :: bs =>
    if isWs b then
      match as with
      | [] => (dropWs bs).isEmpty
      | a :: as' =>
        if !isWs a then false
        else if (dropWs as').isEmpty then (dropWs bs).isEmpty
        else if (dropWs bs).isEmpty then false
        else miw (dropWs as') (dropWs bs)
    else
      match as with
      | [] => false
      | a :: as' => if a != b then false else miw as' bs
termination_by _ bs => bs.length
decreasing_by
  all_goals simp_wf
  · have := dropWs_length_le bs; omega

/-- model of `matches(line1, line2, ignore_whitespace)` (src/locator.cpp) -/
def lineMatches (a b : Line) (iw : Bool) : Bool :=
  if a.newline = b.newline ∧ a.content = b.content then true
  else if !iw then false
  else if a.content = b.content then true
  else miw a.content b.content

end PatchModel
