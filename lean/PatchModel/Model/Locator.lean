/-
  Model/Locator — `expected_line_number` and `locate_hunk` of src/locator.cpp (as of the
  `fix:` commits: lower bound `min_line`, fuzz limited by the context, old side must fit,
  search start clamped to the end of the file).
  Precondition of the C++ function that the model makes explicit: `min_line ≥ 0`
  (apply_patch passes its cursor, which starts at 0 and only grows) — `minLine : Nat`.
-/
import PatchModel.Model.Basic
namespace PatchModel

/-- a found `Location` (the C++ "not found" value (-1,-1,-1) is `Option.none`) -/
structure Location where
  line : Int
  fuzz : Int
  offset : Int
  deriving DecidableEq, Repr, Inhabited

/-- `expected_line_number` -/
def expectedLine (h : Hunk) : Int :=
  if h.old.count = 0 then h.old.start + 1 else h.old.start

def prefixCtx (ls : List PatchLine) : Nat := (ls.takeWhile (·.op == SP)).length
def suffixCtx (ls : List PatchLine) : Nat := prefixCtx ls.reverse

/-- number of hunk lines that are not additions (`old_line_count`) -/
def oldLineCount (ls : List PatchLine) : Nat := (ls.filter (·.op != PLUS)).length

/-- the `std::all_of` lambda over the fuzz-trimmed hunk lines, starting at file index `pos` -/
def matchFrom (content : List Line) (iw : Bool) : List PatchLine → Nat → Bool
  | [], _ => true
  | pl :: rest, pos =>
    if pl.op == PLUS then matchFrom content iw rest pos
    else match content[pos]? with
      | none => false
      | some l => lineMatches l pl.line iw && matchFrom content iw rest (pos + 1)

/-- `hunk.lines.begin() + prefix_fuzz .. hunk.lines.end() - suffix_fuzz` -/
def trimmed (ls : List PatchLine) (pf sf : Nat) : List PatchLine :=
  (ls.drop pf).take (ls.length - pf - sf)

/-- `hunk_matches_starting_from_line(line)` -/
def hunkMatchesAt (content : List Line) (h : Hunk) (iw : Bool) (pf sf : Nat) (line : Nat) : Bool :=
  -- all old lines must fit inside the file, other than those at the end of the hunk which fuzz is ignoring (D99)
  if line + oldLineCount h.lines > content.length + sf then false
  else matchFrom content iw (trimmed h.lines pf sf) (line + pf)

/-- positions probed for one fuzz value, in the code's order: forward from `searchStart` to the end of
    the file, then backward from `searchStart - 1` down to `minLine`. -/
def candidates (searchStart minLine size : Nat) : List Nat :=
  -- (forward up to and including the very end of the file: D109)
  List.range' searchStart (size + 1 - searchStart) ++ (List.range' minLine (searchStart - minLine)).reverse

/-- `search_start = max(min_line, min(offset_guess, content_size))` -/
def searchStart (guess : Int) (minLine size : Nat) : Nat :=
  max minLine (min guess (size : Int)).toNat

/-- the `for (fuzz = 0; fuzz <= max_fuzz; ++fuzz)` loop; `fuel` bounds the iterations (max_fuzz ≤ context). -/
def locateLoop (content : List Line) (h : Hunk) (iw : Bool) (guess : Int) (minLine : Nat)
    (maxFuzz : Int) (pc sc : Nat) : (fuel : Nat) → (fuzz : Nat) → Option Location
  | 0, _ => none
  | fuel+1, fuzz =>
    if (fuzz : Int) > maxFuzz then none else
    let ctx := max pc sc
    let sf := (fuzz + sc) - ctx
    let pf := (fuzz + pc) - ctx
    if sf + pf ≥ h.lines.length then none else
    match (candidates (searchStart guess minLine content.length) minLine content.length).find?
            (hunkMatchesAt content h iw pf sf) with
    | some p => some ⟨p, fuzz, (p : Int) - guess⟩
    | none => locateLoop content h iw guess minLine maxFuzz pc sc fuel (fuzz + 1)

/-- `locate_hunk(content, hunk, ignore_whitespace, offset, max_fuzz, min_line)` -/
def locateHunk (content : List Line) (h : Hunk) (iw : Bool) (offset maxFuzz : Int) (minLine : Nat) :
    Option Location :=
  let guess := expectedLine h - 1 + offset
  if h.old.count = 0 then
    if h.old.start = 0 ∧ content ≠ [] then none
    else if guess < (minLine : Int) ∨ guess > (content.length : Int) then none
    else some ⟨guess, 0, 0⟩
  else
    let pc := prefixCtx h.lines
    let sc := suffixCtx h.lines
    let ctx := max pc sc
    let maxFuzz' := min maxFuzz (ctx : Int)
    locateLoop content h iw guess minLine maxFuzz' pc sc (ctx + 1) 0

end PatchModel
