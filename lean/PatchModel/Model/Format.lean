/-
  Model/Format — src/formatter.cpp: `write_hunk_as_unified`, `write_hunk_as_context`, the two header
  writers; plus decimal printing (`File::operator<<(int64_t)` = fprintf "%" PRId64).
  Output is a byte list. The three "Corrupt patch"/"Invalid patch operation" throws are `Except`.
-/
import PatchModel.Model.Basic
namespace PatchModel

/-- exceptions by dynamic type, as `main`'s catch table and the harness see them -/
inductive Exn
  | parserError | invalidArgument | runtimeError | outOfRange | systemError | cmdlineError | badAlloc | logicError
  deriving DecidableEq, Repr, Inhabited

def digitChar (d : Nat) : UInt8 := UInt8.ofNat (48 + d)

/-- decimal digits of a natural number, most significant first -/
def natDigitsAux : Nat → Bytes → Bytes
  | n, acc => if h : n < 10 then digitChar n :: acc else natDigitsAux (n / 10) (digitChar (n % 10) :: acc)
decreasing_by omega

def natDigits (n : Nat) : Bytes := natDigitsAux n []

def intDigits (i : Int) : Bytes :=
  if i < 0 then MINUS :: natDigits i.natAbs else natDigits i.toNat

def str (s : String) : Bytes := s.toUTF8.toList

def noNewlineMarker : Bytes := str "\\ No newline at end of file\n"

/-- `terminator_of` in formatter.cpp: a line that came with CR LF is written with CR LF -/
def lineEnd (l : Line) : Bytes := if l.newline = NewLine.crlf then [CR, NL] else [NL]

/-- `write_hunk_as_unified` -/
def writeHunkUnified (h : Hunk) : Bytes :=
  str "@@ -" ++ intDigits h.old.start
    ++ (if h.old.count ≠ 1 then [44] ++ intDigits h.old.count else [])
    ++ str " +" ++ intDigits h.new.start
    ++ (if h.new.count ≠ 1 then [44] ++ intDigits h.new.count else [])
    ++ str " @@\n"
    ++ (h.lines.flatMap fun pl =>
          [pl.op] ++ pl.line.content ++ lineEnd pl.line
            ++ (if pl.line.newline = NewLine.none then noNewlineMarker else []))

/-- the static 5-argument `write_hunk_as_context` -/
def writeContextHalves (oldLines : List PatchLine) (oldR : Range) (newLines : List PatchLine) (newR : Range) : Bytes :=
  let half (ls : List PatchLine) : Bytes :=
    match ls.getLast? with
    | none => []
    | some last =>
      (ls.flatMap fun l => [l.op, SP] ++ l.line.content ++ lineEnd l.line)
        ++ (if last.line.newline = NewLine.none then noNewlineMarker else [])
  str "*** " ++ intDigits oldR.start
    ++ (if oldR.count > 1 then [44] ++ intDigits (oldR.start + oldR.count - 1) else [])
    ++ str " ****\n" ++ half oldLines
    ++ str "--- " ++ intDigits newR.start
    ++ (if newR.count > 1 then [44] ++ intDigits (newR.start + newR.count - 1) else [])
    ++ str " ----\n" ++ half newLines

/-- loop state of `write_hunk_as_context(const Hunk&, File&)` -/
structure CtxState where
  newLines : List PatchLine := []
  oldLines : List PatchLine := []
  newLast : Nat := 0
  oldLast : Nat := 0
  operation : UInt8 := SP
  allIns : Bool := true
  allDel : Bool := true

def relabelFrom (ls : List PatchLine) (i : Nat) : List PatchLine :=
  ls.take i ++ (ls.drop i).map fun l => { l with op := BANG }

/-- `make_change_command_on_operation(op)` -/
def CtxState.makeChange (s : CtxState) (op : UInt8) : CtxState :=
  if s.operation != op then
    { s with operation := BANG, newLines := relabelFrom s.newLines s.newLast,
             oldLines := relabelFrom s.oldLines s.oldLast }
  else s

/-- `static_cast<size_t>(hunk.*.number_of_lines)` compared with a vector size -/
def sizeEqCount (n : Nat) (count : Int) : Bool :=
  if count < 0 then false   -- a negative count casts to ≥ 2^63, never equal to a real size
  else (n : Int) == count

def ctxStep (h : Hunk) (s : CtxState) (pl : PatchLine) : Except Exn CtxState :=
  if pl.op == SP then
    if sizeEqCount s.oldLines.length h.old.count then .error .runtimeError
    else if sizeEqCount s.newLines.length h.new.count then .error .runtimeError
    else
      let nl := s.newLines ++ [⟨SP, pl.line⟩]
      let ol := s.oldLines ++ [⟨SP, pl.line⟩]
      .ok { s with operation := SP, newLines := nl, oldLines := ol, newLast := nl.length, oldLast := ol.length }
  else if pl.op == PLUS then
    if sizeEqCount s.newLines.length h.new.count then .error .runtimeError
    else
      let s' := if s.operation != SP then s.makeChange PLUS else { s with operation := PLUS }
      .ok { s' with newLines := s'.newLines ++ [⟨s'.operation, pl.line⟩], allDel := false }
  else if pl.op == MINUS then
    if sizeEqCount s.oldLines.length h.old.count then .error .runtimeError
    else
      let s' := if s.operation != SP then s.makeChange MINUS else { s with operation := MINUS }
      .ok { s' with oldLines := s'.oldLines ++ [⟨s'.operation, pl.line⟩], allIns := false }
  else .error .runtimeError

def ctxFold (h : Hunk) : CtxState → List PatchLine → Except Exn CtxState
  | s, [] => .ok s
  | s, pl :: rest => match ctxStep h s pl with
    | .error e => .error e
    | .ok s' => ctxFold h s' rest

/-- `write_hunk_as_context(const Hunk&, File&)` -/
def writeHunkContext (h : Hunk) : Except Exn Bytes :=
  match ctxFold h {} h.lines with
  | .error e => .error e
  | .ok s =>
    if !sizeEqCount s.newLines.length h.new.count && !sizeEqCount s.oldLines.length h.old.count then
      .error .runtimeError
    else if s.allIns then .ok (writeContextHalves [] h.old s.newLines h.new)
    else if s.allDel then .ok (writeContextHalves s.oldLines h.old [] h.new)
    else .ok (writeContextHalves s.oldLines h.old s.newLines h.new)

def devNull : Bytes := str "/dev/null"

def headerLine (pfx : String) (path time : Bytes) : Bytes :=
  str pfx ++ path ++ (if time ≠ [] ∧ path ≠ devNull then [TAB] ++ time else []) ++ [NL]

/-- `write_patch_header_as_unified` -/
def writeHeaderUnified (p : Patch) : Bytes :=
  headerLine "--- " p.oldPath p.oldTime ++ headerLine "+++ " p.newPath p.newTime

/-- `write_patch_header_as_context` -/
def writeHeaderContext (p : Patch) : Bytes :=
  headerLine "*** " p.oldPath p.oldTime ++ headerLine "--- " p.newPath p.newTime ++ str "***************\n"

end PatchModel
