/-
  Spec/Place — what it means for a hunk to be placed at a position (C02, C03), independent of the
  search algorithm.  Everything is executable (`Bool`), so the same predicates that the theorems are
  about are evaluated as oracles on what the implementation did.
-/
import PatchModel.Model.Applier
namespace PatchModel

/-- the `-l` normal form: every run of blanks becomes one blank, trailing blanks are dropped -/
def normWs : Bytes → Bytes
  | [] => []
  | c :: cs =>
    if isWs c then
      (if (dropWs cs).isEmpty then [] else 32 :: normWs (dropWs cs))
    else c :: normWs cs
termination_by l => l.length
decreasing_by
  all_goals simp_wf
  · have := dropWs_length_le cs; omega

/-- the relation between a file line and the hunk line laid over it -/
def lineEqB (iw : Bool) (fileLine patchLine : Line) : Bool :=
  fileLine == patchLine || (iw && normWs fileLine.content == normWs patchLine.content)

/-- old side / new side of a list of hunk lines -/
def oldOf (ls : List PatchLine) : List Line := (ls.filter (·.op != PLUS)).map (·.line)
def newOf (ls : List PatchLine) : List Line := (ls.filter (·.op != MINUS)).map (·.line)

/-- how many leading / trailing hunk lines fuzz `f` ignores (the code's rule: the longer side of the
    context is eaten first) -/
def fuzzPair (ls : List PatchLine) (f : Nat) : Nat × Nat :=
  let pc := prefixCtx ls
  let sc := suffixCtx ls
  let ctx := max pc sc
  ((f + pc) - ctx, (f + sc) - ctx)

/-- `AdmissibleB file h iw maxFuzz p f`: the hunk may be laid over file lines `[p, p + |old side|)` using fuzz `f`:
    `f` within the `-F` limit and within the context the hunk carries, something is left to compare,
    the old side fits in the file but for the lines at its end which fuzz ignores (D99: those need not have a line of the
    file at all), and every old-side line outside the ignored outer context matches. -/
def admissibleB (file : List Line) (h : Hunk) (iw : Bool) (maxFuzz : Int) (p f : Nat) : Bool :=
  let olds := oldOf h.lines
  let (pf, sf) := fuzzPair h.lines f
  decide ((f : Int) ≤ maxFuzz) && decide (f ≤ max (prefixCtx h.lines) (suffixCtx h.lines))
    && decide (pf + sf < h.lines.length)
    && decide (p + olds.length ≤ file.length + sf)
    && (List.range olds.length).all fun i =>
         decide (i < pf) || decide (olds.length - sf ≤ i) ||
         (match file[p + i]?, olds[i]? with
          | some a, some b => lineEqB iw a b
          | _, _ => false)

/-- the lines a hunk placed at `p` writes: context from the file, additions from the patch (tagged) -/
def hunkOutput (file : List Line) : List PatchLine → Nat → List Out
  | [], _ => []
  | pl :: rest, cur =>
    if pl.op == PLUS then Out.fromPatch pl.line :: hunkOutput file rest cur
    else if pl.op == SP then
      (match file[cur]? with
       | some l => [Out.fromFile cur l]
       | none => []) ++ hunkOutput file rest (cur + 1)
    else hunkOutput file rest (cur + 1)

/-- where the file goes on after a hunk placed at `p`: behind its old side, or at the end of the file if the hunk reaches beyond it
    (context at its end which fuzz ignores: D99) -/
def nextCursor (file : List Line) (h : Hunk) (p : Nat) : Nat := min (p + (oldOf h.lines).length) file.length

/-- the intended output for a list of placements `(hunk, position)` starting from cursor `c` -/
def spliceAt (file : List Line) : Nat → List (Hunk × Nat) → List Out
  | c, [] => copyRange file c (file.length - c)
  | c, (h, p) :: rest =>
    copyRange file c (p - c) ++ hunkOutput file h.lines p ++ spliceAt file (nextCursor file h p) rest

/-- placements are in order, do not overlap, start inside the file and at or after cursor `c` -/
def increasingB (file : List Line) : Nat → List (Hunk × Nat) → Bool
  | c, [] => decide (c ≤ file.length)
  | c, (h, p) :: rest => decide (c ≤ p) && decide (p ≤ file.length)
      && increasingB file (nextCursor file h p) rest

/-- brute force: all admissible `(p, f)` with `p ≥ minLine` -/
def allAdmissible (file : List Line) (h : Hunk) (iw : Bool) (maxFuzz : Int) (minLine : Nat) : List (Nat × Nat) :=
  let ctx := max (prefixCtx h.lines) (suffixCtx h.lines)
  (List.range (ctx + 1)).flatMap fun f =>
    ((List.range (file.length + 1)).filter fun p => decide (minLine ≤ p) && admissibleB file h iw maxFuzz p f).map fun p => (p, f)

end PatchModel
