/-
  Spec/Cpp — a four-directive C preprocessor, enough to say what `-D SYM` output means (C20).
-/
import PatchModel.Model.Applier
namespace PatchModel

inductive CppState
  | outside
  | inside (active : Bool) (elseSeen : Bool)
  deriving DecidableEq, Repr

/-- evaluate `#ifdef sym` / `#ifndef sym` / `#else` / `#endif` (no nesting: the inputs of C20 are free of
    preprocessor lines, so the only directives are the ones patch wrote). `none` = unbalanced or nested. -/
def cppGo (sym : Bytes) (defined : Bool) : CppState → List Line → Option (List Line)
  | .outside, [] => some []
  | .inside _ _, [] => none
  | st, l :: rest =>
    if l.content = dIfdef sym then
      (match st with
       | .outside => cppGo sym defined (.inside defined false) rest
       | _ => none)
    else if l.content = dIfndef sym then
      (match st with
       | .outside => cppGo sym defined (.inside (!defined) false) rest
       | _ => none)
    else if l.content = dElse then
      (match st with
       | .inside a false => cppGo sym defined (.inside (!a) true) rest
       | _ => none)
    else if l.content = dEndif then
      (match st with
       | .inside _ _ => cppGo sym defined .outside rest
       | _ => none)
    else
      (match st with
       | .outside => (cppGo sym defined st rest).map (l :: ·)
       | .inside true _ => (cppGo sym defined st rest).map (l :: ·)
       | .inside false _ => cppGo sym defined st rest)

def cppEval (sym : Bytes) (defined : Bool) (ls : List Line) : Option (List Line) := cppGo sym defined .outside ls

/-- a line that is none of the four directives -/
def notDirective (sym : Bytes) (l : Line) : Prop :=
  l.content ≠ dIfdef sym ∧ l.content ≠ dIfndef sym ∧ l.content ≠ dElse ∧ l.content ≠ dEndif

/-- every maximal run of changed lines is `-…-+…+` or `+…+-…-` (what every diff producer emits; a run `- + -`
    would put the second old line into the `#else` branch of the state machine). `st`: 0 = after context,
    1 = in a '-' run, 2 = in a '+' run, 3 = '-' run then '+' run, 4 = '+' run then '-' run. -/
def groupedGo : Nat → List PatchLine → Bool
  | _, [] => true
  | st, pl :: rest =>
    if pl.op == SP then groupedGo 0 rest
    else if pl.op == MINUS then
      (match st with
       | 0 => groupedGo 1 rest
       | 1 => groupedGo 1 rest
       | 2 => groupedGo 4 rest
       | 4 => groupedGo 4 rest
       | _ => false)
    else if pl.op == PLUS then
      (match st with
       | 0 => groupedGo 2 rest
       | 2 => groupedGo 2 rest
       | 1 => groupedGo 3 rest
       | 3 => groupedGo 3 rest
       | _ => false)
    else false

def grouped (ls : List PatchLine) : Bool := groupedGo 0 ls

end PatchModel
