/-
  Spec/Script — "hs is a diff of A": well-formed hunks, `Valid`, and the intended result `splice`.
  No reference to the locator or the applier.
-/
import PatchModel.Spec.Place
namespace PatchModel

/-- the body of a hunk is consistent with its header: only ' ', '+', '-' lines, declared counts = side lengths -/
def Hunk.WF (h : Hunk) : Prop :=
  (∀ pl ∈ h.lines, pl.op = SP ∨ pl.op = PLUS ∨ pl.op = MINUS) ∧
  h.old.count = (oldOf h.lines).length ∧ h.new.count = (newOf h.lines).length

def Hunk.wfB (h : Hunk) : Bool :=
  h.lines.all (fun pl => pl.op == SP || pl.op == PLUS || pl.op == MINUS) &&
  h.old.count == ((oldOf h.lines).length : Int) && h.new.count == ((newOf h.lines).length : Int)

/-- zero based position stated by the old range (the zero-count convention: `start` is the line *before*) -/
def Hunk.pos0 (h : Hunk) : Int := expectedLine h - 1

/-- zero based position stated by the new range -/
def Hunk.newPos0 (h : Hunk) : Int := (if h.new.count = 0 then h.new.start + 1 else h.new.start) - 1

/-- `Valid file c delta hs`: starting at cursor `c` (old-file coordinates) with accumulated growth `delta`,
    every hunk is well formed, states the place where its old side really is (line for line: content and
    terminator class), hunks are in increasing order without overlap, and each new start equals the old
    position plus the growth of the hunks before it. The last conjunct of `cons` excludes the one input
    class the implementation is known to get wrong (known finding D2: a context-free insertion stated at
    line 0 of a non-empty file). -/
inductive Valid (file : List Line) : Nat → Int → List Hunk → Prop
  | nil (c : Nat) (d : Int) : c ≤ file.length → Valid file c d []
  | cons (c : Nat) (d : Int) (h : Hunk) (hs : List Hunk) (p : Nat) :
      h.WF → h.pos0 = (p : Int) → c ≤ p →
      (file.drop p).take (oldOf h.lines).length = oldOf h.lines →
      p + (oldOf h.lines).length ≤ file.length →
      h.newPos0 = (p : Int) + d →
      ¬ (h.old.count = 0 ∧ h.old.start = 0 ∧ file ≠ []) →
      Valid file (p + (oldOf h.lines).length) (d + (h.new.count - h.old.count)) hs →
      Valid file c d (h :: hs)

/-- the intended result of applying `hs` to `file` from cursor `c` -/
def splice (file : List Line) : Nat → List Hunk → List Line
  | c, [] => file.drop c
  | c, h :: hs =>
    let p := h.pos0.toNat
    (file.drop c).take (p - c) ++ newOf h.lines ++ splice file (p + (oldOf h.lines).length) hs

/-- executable check of `Valid` (used by the oracles on diffs made by real tools) -/
def validB (file : List Line) : Nat → Int → List Hunk → Bool
  | c, _, [] => decide (c ≤ file.length)
  | c, d, h :: hs =>
    let p := h.pos0
    h.wfB && decide (0 ≤ p) && decide (c ≤ p.toNat)
      && ((file.drop p.toNat).take (oldOf h.lines).length == oldOf h.lines)
      && decide (p.toNat + (oldOf h.lines).length ≤ file.length)
      && decide (h.newPos0 = p + d)
      && !(h.old.count == 0 && h.old.start == 0 && !file.isEmpty)
      && validB file (p.toNat + (oldOf h.lines).length) (d + (h.new.count - h.old.count)) hs

end PatchModel
