/-
  Spec/Inert — text that "does not itself look like diff syntax" (C11): mail headers, commit messages,
  blank lines, signatures.  Stated on the bytes of one line, without reference to the parser.
-/
import PatchModel.Model.Parse
namespace PatchModel

/-- a line the header scan must ignore: it starts with none of the header keywords, is not a line of stars,
    does not start like a unified range ("@@ -") and does not start with a digit (a normal range / a number
    that the range readers would pick up) -/
def inertLine (l : Bytes) : Bool :=
  !(startsWith l "*** ") && !(startsWith l "+++ ") && !(startsWith l "--- ") && !(startsWith l "Index: ")
    && !(startsWith l "Prereq: ") && !(startsWith l "diff --git ") && !(startsWith l "***************")
    && !(startsWith l "@@ -") && !(match l with | c :: _ => isDigit c | [] => false)

/-- inside a git section the extended header keywords are not inert either -/
def inertGitLine (l : Bytes) : Bool :=
  inertLine l && !(startsWith l "rename from ") && !(startsWith l "rename to ") && !(startsWith l "copy from ")
    && !(startsWith l "copy to ") && !(startsWith l "deleted file mode ") && !(startsWith l "new file mode ")
    && !(startsWith l "old mode ") && !(startsWith l "new mode ") && !(startsWith l "index ") && !(startsWith l "GIT binary patch")

end PatchModel
