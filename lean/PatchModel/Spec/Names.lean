/-
  Spec/Names — what `-pN` means, and how diff tools quote file names (C12).
-/
import PatchModel.Model.Paths
namespace PatchModel

/-- remove `n` leading path components; a run of slashes counts once; a name with fewer than `n`
    components (or with nothing left) yields the empty name, which callers treat as "not usable" -/
def stripSpec : Bytes → Nat → Bytes
  | p, 0 => p
  | p, n + 1 =>
    let rest := p.dropWhile (· != SLASH)
    if rest = [] then [] else stripSpec (rest.dropWhile (· == SLASH)) n
termination_by _ n => n

/-- the last component: everything after the last slash -/
def basenameSpec (p : Bytes) : Bytes :=
  match p.reverse.takeWhile (· != SLASH) with
  | r => r.reverse

def octal3 (c : UInt8) : Bytes :=
  [UInt8.ofNat (48 + c.toNat / 64), UInt8.ofNat (48 + (c.toNat / 8) % 8), UInt8.ofNat (48 + c.toNat % 8)]

/-- C-style quoting as GNU diff and git emit it: `\\`, `\"`, `\n`, `\t`, three-digit octal for other control
    bytes and bytes ≥ 127, everything else literally -/
def cQuoteBody : Bytes → Bytes
  | [] => []
  | c :: rest =>
    (if c == BACKSLASH then [BACKSLASH, BACKSLASH]
     else if c == DQUOTE then [BACKSLASH, DQUOTE]
     else if c == NL then [BACKSLASH, 110]
     else if c == TAB then [BACKSLASH, 116]
     else if c < 32 || c ≥ 127 then BACKSLASH :: octal3 c
     else [c]) ++ cQuoteBody rest

def cQuote (s : Bytes) : Bytes := [DQUOTE] ++ cQuoteBody s ++ [DQUOTE]

end PatchModel
