/-
  Spec/Diff — which hunks a diff file can denote, and what "the same change" means after a round trip
  through text (C13).  A reject file writes every line with LF and marks a missing final newline, so the
  LF/CRLF class is not carried; `normNl` forgets it.
-/
import PatchModel.Spec.Script
import PatchModel.Model.Parse
namespace PatchModel

/-- forget the LF/CRLF distinction (a reject file does not carry it) -/
def Line.normNl (l : Line) : Line := { l with newline := if l.newline = .none then .none else .lf }
def PatchLine.normNl (pl : PatchLine) : PatchLine := { pl with line := pl.line.normNl }
def Hunk.normNl (h : Hunk) : Hunk := { h with lines := h.lines.map PatchLine.normNl }

/-- a line whose content survives being written as `content LF` and read back -/
def plainLine (l : Line) : Bool := !l.content.contains NL && l.content.getLast? != some CR

/-- "missing newline" can only be said of the last line of a side: a '-' line that is the last old-side line,
    a '+' line that is the last new-side line, a context line that is the last line of the hunk -/
def noNlOnlyLast : List PatchLine → Bool
  | [] => true
  | pl :: rest =>
    (if pl.line.newline = .none then
       (if pl.op == MINUS then (oldOf rest).isEmpty
        else if pl.op == PLUS then (newOf rest).isEmpty
        else rest.isEmpty)
     else true) && noNlOnlyLast rest

/-- a hunk a diff file can denote faithfully -/
def Hunk.writable (h : Hunk) : Bool :=
  h.wfB && !h.lines.isEmpty && h.lines.all (fun pl => plainLine pl.line) && noNlOnlyLast h.lines
    && decide (0 ≤ h.old.start) && decide (0 ≤ h.new.start)
    && decide (h.old.start + h.old.count ≤ i64Max / 4) && decide (h.new.start + h.new.count ≤ i64Max / 4)

/-- what follows the hunks in the stream does not continue them: not a range line, not a `\` marker -/
def tailOkUnified (tail : List Line) : Bool :=
  match tail with
  | [] => true
  | l :: _ => !(parseUnifiedRange defaultHunk l.content).1 && l.content.head? != some BACKSLASH

/-- the change a hunk denotes: its two sides (content + missing-newline marker) and its ranges -/
def sameChange (a b : Hunk) : Prop :=
  (oldOf a.lines).map Line.normNl = (oldOf b.lines).map Line.normNl ∧
  (newOf a.lines).map Line.normNl = (newOf b.lines).map Line.normNl ∧
  a.old = b.old ∧ a.new = b.new

def starsLine : Bytes := str "***************\n"

/-- the hunks of a context format reject file: every hunk after the first is preceded by the separator
    (the first one's separator is the last line of the header) -/
def ctxRejectBody : List Hunk → Except Exn Bytes
  | [] => .ok []
  | h :: hs =>
    match writeHunkContext h, ctxRejectBody hs with
    | .ok b, .ok rest => .ok (b ++ (if hs.isEmpty then [] else starsLine) ++ rest)
    | .error e, _ => .error e
    | _, .error e => .error e

end PatchModel
