/-
  Model driver: one request per line on stdin, one response per line on stdout.
  The same request lines are answered by harness/inproc (the real C++ code); `check` diffs the streams.
-/
import PatchModel.Proto
import PatchModel.Spec.Place
open PatchModel PatchModel.Proto

def respond (req : List String) : Except String String :=
  match req with
  | "ws" :: rest => (do
      let a ← pBytes; let b ← pBytes
      pure (if miw a b then "1" else "0") : P String).run' rest
  | "match" :: rest => (do
      let a ← pLine; let b ← pLine; let iw ← pBool
      pure (if lineMatches a b iw then "1" else "0") : P String).run' rest
  | "locate" :: rest => (do
      let file ← pList pLine; let h ← pHunk; let iw ← pBool
      let off ← pInt; let mf ← pInt; let ml ← pNat
      pure (match locateHunk file h iw off mf ml with
        | none => "none"
        | some l => s!"loc {l.line} {l.fuzz} {l.offset}") : P String).run' rest
  | "fmtu" :: rest => (do
      let h ← pHunk
      pure ("ok " ++ hex (writeHunkUnified h)) : P String).run' rest
  | "fmtc" :: rest => (do
      let h ← pHunk
      pure (match writeHunkContext h with
        | .ok b => "ok " ++ hex b
        | .error e => "exn " ++ showExn e) : P String).run' rest
  | "reverse" :: rest => (do
      let h ← pHunk
      pure ("ok " ++ showHunk (reverseHunk h)) : P String).run' rest
  | "apply" :: rest => (do
      let file ← pList pLine; let p ← pPatch; let o ← pApplyOpts
      pure (match applyPatch file p o none with
        | .error e => "exn " ++ showExn e
        | .ok r =>
          let msgs := String.intercalate "," (r.msgs.map showMsg)
          s!"ok out={hex (render o.newlineOutput r.out)} rej={hex r.rejBytes} failed={r.failed} skipped={if r.skipped then 1 else 0} perfect={if r.perfect then 1 else 0} nhunks={r.patch.hunks.length} op={showOperation r.patch.operation} msgs={msgs}") : P String).run' rest
  | "oracle_place" :: rest => (do
      -- does the implementation's output have an explanation by increasing admissible placements? (C02)
      let file ← pList pLine; let hs ← pList pHunk; let iw ← pBool; let mf ← pInt
      let mode ← pNewlineOutput
      let pls ← pList (do let i ← pNat; let p ← pNat; let f ← pNat; pure (i, p, f))
      let out ← pBytes
      let placed := pls.filterMap fun (i, p, _) => (hs[i]?).map fun h => (h, p)
      if placed.length ≠ pls.length then pure "bad:index"
      else
        let admOk := pls.all fun (i, p, f) =>
          match hs[i]? with
          | none => false
          | some h =>
            if (oldOf h.lines).isEmpty then f == 0 && decide (p ≤ file.length)
            else admissibleB file h iw mf p f
        if !admOk then pure "bad:not-admissible"
        else if !increasingB file 0 placed then pure "bad:not-increasing"
        else if render mode (spliceAt file 0 placed) != out then pure "bad:output-differs"
        else pure "ok" : P String).run' rest
  | "oracle_complete" :: rest => (do
      -- C03: found iff a placement exists, least fuzz, exact place preferred
      let file ← pList pLine; let h ← pHunk; let iw ← pBool; let mf ← pInt
      let off ← pInt; let ml ← pNat
      let claimed ← (do
        match (← tok) with
        | "none" => pure (none : Option (Nat × Nat))
        | _ => do let p ← pNat; let f ← pNat; pure (some (p, f)))
      let guess := expectedLine h - 1 + off
      if (oldOf h.lines).isEmpty || h.old.count == 0 then
        if h.old.start == 0 && !file.isEmpty then
          pure (if claimed.isNone then "known:locator.insert-at-zero-nonempty" else "ok")
        else if (ml : Int) ≤ guess && guess ≤ (file.length : Int) then
          pure (if claimed == some (guess.toNat, 0) then "ok" else "bad:insertion-not-at-stated-line")
        else pure (if claimed.isNone then "ok" else "bad:insertion-outside")
      else
        let S := allAdmissible file h iw mf ml
        match claimed with
        | none => pure (if S.isEmpty then "ok" else "bad:fits-but-rejected")
        | some (p, f) =>
          if !S.contains (p, f) then pure "bad:not-admissible"
          else if S.any (fun (_, f') => f' < f) then pure "bad:fuzz-not-least"
          else if 0 ≤ guess && S.contains (guess.toNat, 0) && (p, f) != (guess.toNat, 0) then pure "bad:not-at-stated-place"
          else pure "ok" : P String).run' rest
  | cmd :: _ => .error s!"unknown request {cmd}"
  | [] => .error "empty request"

partial def loop (hin : IO.FS.Stream) (hout : IO.FS.Stream) : IO Unit := do
  let line ← hin.getLine
  if line.isEmpty then return ()
  let req := (line.trimAscii.toString.splitOn " ").filter (· ≠ "")
  match respond req with
  | .ok s => hout.putStrLn s
  | .error e => hout.putStrLn ("bad-request " ++ e)
  loop hin hout

def main : IO Unit := do
  let hin ← IO.getStdin
  let hout ← IO.getStdout
  loop hin hout
  hout.flush
