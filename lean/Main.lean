/-
  Model driver: one request per line on stdin, one response per line on stdout.
  The same request lines are answered by harness/inproc (the real C++ code); `check` diffs the streams.
-/
import PatchModel.Proto
import PatchModel.Spec.Place
import PatchModel.Model.Parse
import PatchModel.Model.Cmdline
import PatchModel.Spec.Script
import PatchModel.Model.Driver
open PatchModel PatchModel.Proto

def showOB : OptionalBool → String | .unset => "unset" | .yes => "yes" | .no => "no"
def showOptions (o : Options) : String :=
  let b (x : Bool) : String := if x then "1" else "0"
  let nl := match o.newlineOutput with | .native => "native" | .lf => "lf" | .crlf => "crlf" | .keep => "keep"
  let rf := match o.rejectFormat with | .context => "context" | .unified => "unified" | .default => "default"
  let ro := match o.readOnly with | .warn => "warn" | .ignore => "ignore" | .fail => "fail"
  let qs := match o.quotingStyle with | .unset => "unset" | .literal => "literal" | .shell => "shell" | .shellAlways => "shell-always" | .c => "c"
  s!"b={b o.saveBackup} c={b o.asContext} d={hex o.directory} D={hex o.define} e={b o.asEd} i={hex o.patchFile} l={b o.ignoreWhitespace} n={b o.asNormal} N={b o.ignoreReversed} o={hex o.outFile} p={o.strip} F={o.maxFuzz} R={b o.reverse} file={hex o.fileToPatch} r={hex o.rejectFile} f={b o.force} t={b o.batch} h={b o.showHelp} v={b o.showVersion} u={b o.asUnified} verbose={b o.verbose} dry={b o.dryRun} posix={b o.posix} bim={showOB o.backupIfMismatch} E={showOB o.removeEmptyFiles} nl={nl} rf={rf} ro={ro} qs={qs} z={hex o.backupSuffix} B={hex o.backupPrefix}"

def showPatch (p : Patch) : String :=
  s!"{showFormat p.format} {showOperation p.operation} {hex p.indexPath} {hex p.prerequisite} {hex p.oldPath} {hex p.newPath} {hex p.oldTime} {hex p.newTime} {p.oldMode} {p.newMode} {p.hunks.length}"
    ++ String.join (p.hunks.map fun h => " " ++ showHunk h)

/-- number of lines `get_line` still yields -/
def remaining (s : PStream) : Nat :=
  if s.eof || s.bad then 0 else s.rest.length

def respond (req : List String) : Except String String :=
  match req with
  | "ws" :: rest => (do
      let a ← pBytes; let b ← pBytes
      pure (if miw a b then "1" else "0") : P String).run' rest
  | "match" :: rest => (do
      let a ← pLine; let b ← pLine; let iw ← pBool
      pure (if lineMatches a b iw then "1" else "0") : P String).run' rest
  | "locate" :: rest => (do
      let file ← pList pLine; let h ← pHunk; let iw ← pBool
      let off ← pInt; let mf ← pInt; let ml ← pNat
      pure (match locateHunk file h iw off mf ml with
        | none => "none"
        | some l => s!"loc {l.line} {l.fuzz} {l.offset}") : P String).run' rest
  | "fmtu" :: rest => (do
      let h ← pHunk
      pure ("ok " ++ hex (writeHunkUnified h)) : P String).run' rest
  | "fmtc" :: rest => (do
      let h ← pHunk
      pure (match writeHunkContext h with
        | .ok b => "ok " ++ hex b
        | .error e => "exn " ++ showExn e) : P String).run' rest
  | "reverse" :: rest => (do
      let h ← pHunk
      pure ("ok " ++ showHunk (reverseHunk h)) : P String).run' rest
  | "apply" :: rest => (do
      let file ← pList pLine; let p ← pPatch; let o ← pApplyOpts
      pure (match applyPatch file p o none with
        | .error e => "exn " ++ showExn e
        | .ok r =>
          let msgs := String.intercalate "," (r.msgs.map showMsg)
          s!"ok out={hex (render o.newlineOutput r.out)} rej={hex r.rejBytes} failed={r.failed} skipped={if r.skipped then 1 else 0} perfect={if r.perfect then 1 else 0} nhunks={r.patch.hunks.length} op={showOperation r.patch.operation} msgs={msgs}") : P String).run' rest
  | "oracle_place" :: rest => (do
      -- does the implementation's output have an explanation by increasing admissible placements? (C02)
      let file ← pList pLine; let hs ← pList pHunk; let iw ← pBool; let mf ← pInt
      let mode ← pNewlineOutput
      let pls ← pList (do let i ← pNat; let p ← pNat; let f ← pNat; pure (i, p, f))
      let out ← pBytes
      let placed := pls.filterMap fun (i, p, _) => (hs[i]?).map fun h => (h, p)
      if placed.length ≠ pls.length then pure "bad:index"
      else
        let admOk := pls.all fun (i, p, f) =>
          match hs[i]? with
          | none => false
          | some h =>
            if (oldOf h.lines).isEmpty then f == 0 && decide (p ≤ file.length)
            else admissibleB file h iw mf p f
        if !admOk then pure "bad:not-admissible"
        else if !increasingB file 0 placed then pure "bad:not-increasing"
        else if render mode (spliceAt file 0 placed) != out then pure "bad:output-differs"
        else pure "ok" : P String).run' rest
  | "oracle_complete" :: rest => (do
      -- C03: found iff a placement exists, least fuzz, exact place preferred
      let file ← pList pLine; let h ← pHunk; let iw ← pBool; let mf ← pInt
      let off ← pInt; let ml ← pNat
      let claimed ← (do
        match (← tok) with
        | "none" => pure (none : Option (Nat × Nat))
        | t => do
          match t.toNat? with
          | none => throw s!"expected position, got {t}"
          | some p => let f ← pNat; pure (some (p, f)))
      let guess := expectedLine h - 1 + off
      if (oldOf h.lines).isEmpty || h.old.count == 0 then
        if h.old.start == 0 && !file.isEmpty then
          pure (if claimed.isNone then "known:locator.insert-at-zero-nonempty" else "ok")
        else if (ml : Int) ≤ guess && guess ≤ (file.length : Int) then
          pure (if claimed == some (guess.toNat, 0) then "ok" else "bad:insertion-not-at-stated-line")
        else pure (if claimed.isNone then "ok" else "bad:insertion-outside")
      else
        let S := allAdmissible file h iw mf ml
        match claimed with
        | none => pure (if S.isEmpty then "ok" else "bad:fits-but-rejected")
        | some (p, f) =>
          if !S.contains (p, f) then pure "bad:not-admissible"
          else if S.any (fun (_, f') => f' < f) then pure "bad:fuzz-not-least"
          else if 0 ≤ guess && S.contains (guess.toNat, 0) && (p, f) != (guess.toNat, 0) then pure "bad:not-at-stated-place"
          else pure "ok" : P String).run' rest
  | "drive" :: rest => (do
      -- the whole program: tree, uid, stdin, tty answers (or "notty"), env, argv
      let nodes ← pList (do
        let p ← pBytes
        let k ← tok
        let c ← pBytes
        let m ← pNat
        let n : Node ← match k with
          | "f" => pure (Node.file c m) | "d" => pure (Node.dir m) | "l" => pure (Node.symlink c) | "p" => pure (Node.other m)
          | _ => throw s!"bad node kind {k}"
        pure (p, n))
      let isRoot ← pBool
      let stdin ← pBytes
      let tty ← (do
        match (← tok) with
        | "notty" => pure (none : Option (List Bytes))
        | "tty" => do let l ← pList pBytes; pure (some l)
        | t => throw s!"expected tty/notty, got {t}")
      let pc ← pBool
      let argv ← pList pBytes
      pure (match commandLine optionTable argv { posixlyCorrect := pc } with
        | .error e => "exit=2 cmdline=" ++ showExn e
        | .ok o =>
          let (code, st) := runPatch o { fs := { nodes := nodes, isRoot := isRoot }, tty := tty, stdin := stdin }
          let tree := st.fs.nodes.toArray.qsort (fun a b => hex a.1 < hex b.1) |>.toList
          let showNode : Bytes × Node → String := fun (p, n) => match n with
            | .file b m => s!"{hex p}:f:{hex b}:{m}"
            | .dir m => s!"{hex p}:d:x:{m}"
            | .symlink t => s!"{hex p}:l:{hex t}:0"
            | .other m => s!"{hex p}:p:x:{m}"
          let showEv : DEv → Option String
            | .file p _ => some s!"file:{hex p}"
            | .msg (.hunk n k a f off) => some s!"hunk:{n}:{k}:{a}:{f}:{off}"
            | .msg (.reversedDetected u) => some (if u then "unreversed" else "reversed")
            | .msg .assumingR => some "assuming-R"
            | .msg .skippingPatch => some "skipping"
            | .msg (.asked _) => none
            | .failed n t ign rej => some s!"failed:{n}:{t}:{if ign then "ignored" else "FAILED"}:{match rej with | some r => hex r | none => "-"}"
            | .cantFind => some "cant-find" | .skipping => some "skipping" | .notRegular => none | .readOnly => some "read-only"
            | .refusing => some "refusing" | .notDeleting => some "not-deleting" | .binary => some "binary" | .garbage => some "garbage"
            | .prereqWarn => none | .asked _ => none
          let showOp : FsOp → String
            | .creat p => s!"creat:{hex p}" | .write p b => s!"write:{hex p}:{hex b}" | .rename a b => s!"rename:{hex a}:{hex b}"
            | .unlink p => s!"unlink:{hex p}" | .rmdir p => s!"rmdir:{hex p}" | .mkdir p => s!"mkdir:{hex p}"
            | .chmod p m => s!"chmod:{hex p}:{m}" | .symlink t p => s!"symlink:{hex t}:{hex p}"
            | .tmpCreate => "tmp-create" | .tmpUnlink => "tmp-unlink"
          s!"exit={code} tree={String.intercalate "," (tree.map showNode)} ev={String.intercalate "," (st.out.filterMap showEv)} stdout={hex st.stdout} trace={String.intercalate "," (st.trace.map showOp)}") : P String).run' rest
  | "oracle_valid" :: rest => (do
      -- is `hs` a diff of `a` (Spec.Valid) whose intended result (Spec.splice) is `b`?
      let a ← pList pLine; let hs ← pList pHunk; let b ← pList pLine
      if !validB a 0 0 hs then pure "bad:not-valid"
      else if splice a 0 hs != b then pure "bad:splice-differs"
      else pure "ok" : P String).run' rest
  | "cmdline" :: rest => (do
      let argv ← pList pBytes; let pc ← pBool
      let qs ← (do
        match (← tok) with
        | "-" => pure (none : Option Bytes)
        | t => match t.toList with
          | 'x' :: cs => match unhex cs with
            | some b => pure (some b)
            | none => throw "bad hex"
          | _ => throw "bad env value")
      pure (match commandLine optionTable argv { posixlyCorrect := pc, quotingStyle := qs } with
        | .error e => "exn " ++ showExn e
        | .ok o => "ok " ++ showOptions o) : P String).run' rest
  | "readlines" :: rest => (do
      let bytes ← pBytes
      let ls := splitLines bytes
      pure (s!"ok {ls.length}" ++ String.join (ls.map fun l => " " ++ showLine l)) : P String).run' rest
  | "strip" :: rest => (do
      let path ← pBytes; let n ← pInt
      pure ("ok " ++ hex (stripPath path n)) : P String).run' rest
  | "basename" :: rest => (do
      let path ← pBytes
      pure ("ok " ++ hex (basename path)) : P String).run' rest
  | "quoted" :: rest => (do
      let s ← pBytes
      pure (match parseQuotedString s with
        | .ok (b, _) => "ok " ++ hex b
        | .error e => "exn " ++ showExn e) : P String).run' rest
  | "fileline" :: rest => (do
      let s ← pBytes; let n ← pInt
      pure (match parseFileLine s n with
        | .ok (pa, ts) => "ok " ++ hex pa ++ " " ++ (match ts with | some t => hex t | none => "unset")
        | .error e => "exn " ++ showExn e) : P String).run' rest
  | "gitname" :: rest => (do
      let s ← pBytes; let n ← pInt
      pure (match parseGitHeaderName s n with
        | .ok b => "ok " ++ hex b
        | .error e => "exn " ++ showExn e) : P String).run' rest
  | "gitext" :: rest => (do
      let s ← pBytes; let n ← pInt
      pure (match parseGitExtendedInfo s {} n with
        | .ok (b, p) => s!"ok {if b then 1 else 0} {showOperation p.operation} {hex p.oldPath} {hex p.newPath} {p.oldMode} {p.newMode}"
        | .error e => "exn " ++ showExn e) : P String).run' rest
  | "urange" :: rest => (do
      let s ← pBytes
      let (ok, h) := parseUnifiedRange defaultHunk s
      pure s!"{if ok then 1 else 0} {h.old.start} {h.old.count} {h.new.start} {h.new.count}" : P String).run' rest
  | "nrange" :: rest => (do
      let s ← pBytes
      let (ok, h) := parseNormalRange defaultHunk s
      pure s!"{if ok then 1 else 0} {h.old.start} {h.old.count} {h.new.start} {h.new.count}" : P String).run' rest
  | "parse" :: rest => (do
      let bytes ← pBytes; let f ← pFormat; let n ← pInt
      pure (match parsePatch bytes f n with
        | .error e => "exn " ++ showExn e
        | .ok (p, par) => "ok " ++ showPatch p ++ s!" rem={remaining par.s}") : P String).run' rest
  | "parseall" :: rest => (do
      let bytes ← pBytes; let f ← pFormat; let n ← pInt
      let par : Parser := { s := { rest := splitLines bytes } }
      pure (match parseAll f n 64 par [] with
        | .error e => "exn " ++ showExn e
        | .ok (ps, par', looped) =>
          if looped then "loop"
          else s!"ok {ps.length}" ++ String.join (ps.map fun p => " | " ++ showPatch p) ++ s!" rem={remaining par'.s}") : P String).run' rest
  | cmd :: _ => .error s!"unknown request {cmd}"
  | [] => .error "empty request"

partial def loop (hin : IO.FS.Stream) (hout : IO.FS.Stream) : IO Unit := do
  let line ← hin.getLine
  if line.isEmpty then return ()
  let req := (line.trimAscii.toString.splitOn " ").filter (· ≠ "")
  match respond req with
  | .ok s => hout.putStrLn s
  | .error e => hout.putStrLn ("bad-request " ++ e)
  loop hin hout

def main : IO Unit := do
  let hin ← IO.getStdin
  let hout ← IO.getStdout
  loop hin hout
  hout.flush
