/-
  C01 / C15 at the level of the driver model: one section of a patch stream whose header and body have been parsed into a valid
  script of the target file is carried out exactly — the target gets the new content, keeps its mode, nothing else changes,
  no failure is recorded; with --dry-run the same section leaves the tree alone and records no failure either (fidelity of the
  prediction for this case).  Parsing itself is the subject of C13's round-trip theorems and C11's filler theorems.
-/
import PatchModel.Model.Driver
import PatchModel.Spec.Script
namespace PatchModel.C01
open PatchModel

/-- the options under which a plain "change" section is carried out in the simplest way -/
structure PlainOpts (o : Options) (p : Bytes) : Prop where
  operand : o.fileToPatch = p
  noOut : o.outFile = []
  noBackup : o.saveBackup = false
  noReverse : o.reverse = false
  noDefine : o.define = []
  fuzz : 0 ≤ o.maxFuzz
  quiet : o.verbose = false

theorem C01_section (o : Options) (fmt : Format) (s : DState) (p bytes : Bytes) (m : Nat)
    (patch0 : Patch) (info : HeaderInfo) (par1 par2 : Parser) (hs : List Hunk)
    (ho : PlainOpts o p) (hreal : o.dryRun = false) (hp : p ≠ []) (hcwd : s.cwd = [])
    (hhdr : parseHeader s.par { format := fmt } o.strip = .ok (true, patch0, info, par1))
    (hfmt : patch0.format = .unified ∨ patch0.format = .context ∨ patch0.format = .normal)
    (hop : patch0.operation = .change) (hpre : patch0.prerequisite = []) (hnh : patch0.hunks = []) (hnm : patch0.newMode = 0)
    (hbody : parseBody par1 patch0 = .ok ({ patch0 with hunks := hs }, par2))
    (hfile : s.fs.lookup p = some (.file bytes m)) (hw : m &&& writeMask ≠ 0) (hroot : s.fs.isRoot = true)
    (hvalid : Valid (splitLines bytes) 0 0 hs) (hf : s.faultAt = none) :
    ∃ s', (processSection o fmt).run s = (.ok true, s') ∧
      s'.fs.lookup p = some (.file (renderLines o.newlineOutput (splice (splitLines bytes) 0 hs)) m) ∧
      (∀ q, q ≠ p → s'.fs.lookup q = s.fs.lookup q) ∧
      s'.hadFailure = s.hadFailure ∧ s'.par = par2 ∧ s'.dWrites = s.dWrites ∧ s'.dRemovals = s.dRemovals := by
  sorry

/-- the same section under --dry-run: tree untouched, same verdict (no failure recorded), stream advanced identically -/
theorem C15_section_fidelity (o : Options) (fmt : Format) (s : DState) (p bytes : Bytes) (m : Nat)
    (patch0 : Patch) (info : HeaderInfo) (par1 par2 : Parser) (hs : List Hunk)
    (ho : PlainOpts o p) (hdry : o.dryRun = true) (hp : p ≠ []) (hcwd : s.cwd = [])
    (hhdr : parseHeader s.par { format := fmt } o.strip = .ok (true, patch0, info, par1))
    (hfmt : patch0.format = .unified ∨ patch0.format = .context ∨ patch0.format = .normal)
    (hop : patch0.operation = .change) (hpre : patch0.prerequisite = []) (hnh : patch0.hunks = []) (hnm : patch0.newMode = 0)
    (hbody : parseBody par1 patch0 = .ok ({ patch0 with hunks := hs }, par2))
    (hfile : s.fs.lookup p = some (.file bytes m)) (hw : m &&& writeMask ≠ 0) (hroot : s.fs.isRoot = true)
    (hvalid : Valid (splitLines bytes) 0 0 hs) (hf : s.faultAt = none) :
    ∃ s', (processSection o fmt).run s = (.ok true, s') ∧
      s'.fs = s.fs ∧ s'.hadFailure = s.hadFailure ∧ s'.par = par2 := by
  sorry

end PatchModel.C01
