/-
  Second wave of theorems (C16 frame / trace completeness, C13 reject shift, C14 preserve at apply level, C03 for whole sequences).
-/
import PatchModel.Model.Driver
import PatchModel.Spec.Script
import PatchModel.Props.C02Apply
import PatchModel.Props.C04
namespace PatchModel.W2
open PatchModel

/-- replay a list of operations on a tree -/
def replayOps : Fs → List FsOp → Option Fs
  | fs, [] => some fs
  | fs, op :: rest => match fs.apply op with
    | .ok fs' => replayOps fs' rest
    | .error _ => none

/-- **the trace is the complete account of what happened to the tree**: the final tree of any run (successful, failed or aborted,
    with or without a fault) is exactly the initial tree with the logged operations replayed on it -/
theorem fs_is_replay (o : Options) (s0 : DState) (h0 : s0.trace = []) :
    replayOps s0.fs (runPatch o s0).2.trace = some (runPatch o s0).2.fs := by
  sorry

/-- a tree without symbolic links -/
def noSymlinks (fs : Fs) : Prop := ∀ p n, (p, n) ∈ fs.nodes → ∀ t, n ≠ Node.symlink t

/-- an operation only changes the entries of the paths it names (in a tree without symbolic links, where no path resolves elsewhere) -/
theorem apply_local (fs fs' : Fs) (op : FsOp) (h : fs.apply op = .ok fs') (hn : noSymlinks fs) (q : Bytes) (hq : q ∉ op.paths) :
    fs'.lookup q = fs.lookup q := by
  sorry

/-- **C16 frame**: a path that no logged operation names keeps its entry (bytes and mode) through the whole run, provided no symbolic
    link is involved (none in the tree, none created) -/
theorem untouched_paths_unchanged (o : Options) (s0 : DState) (h0 : s0.trace = []) (hn : noSymlinks s0.fs)
    (hnl : ∀ op ∈ (runPatch o s0).2.trace, ∀ t p, op ≠ FsOp.symlink t p)
    (q : Bytes) (hq : ∀ op ∈ (runPatch o s0).2.trace, q ∉ op.paths) :
    (runPatch o s0).2.fs.lookup q = s0.fs.lookup q := by
  sorry

/-- net growth of the hunks applied before hunk `i` -/
def growthBefore (hunks : List Hunk) (applied : List (Nat × Location)) (i : Nat) : Int :=
  ((applied.filter (·.1 < i)).map fun (j, _) => match hunks[j]? with
    | some h => h.new.count - h.old.count
    | none => 0).sum

/-- **C13 reject shift**: the start lines of a rejected hunk are the stated ones shifted by exactly the net growth of the hunks that
    were applied before it (and nothing else: hunks skipped or rejected do not count) -/
theorem reject_shift (file : List Line) (p0 : Patch) (o : ApplyOpts) (tty : Option (List Bool)) (r : ApplyResult)
    (hr : applyPatch file p0 o tty = .ok r) :
    ∀ ih ∈ r.rejected, ∃ h, r.patch.hunks[ih.1]? = some h ∧
      ih.2.old.start = h.old.start + growthBefore r.patch.hunks r.applied ih.1 ∧
      ih.2.new.start = h.new.start + growthBefore r.patch.hunks r.applied ih.1 := by
  sorry

/-- **C14 preserve at apply_patch level**: without -D every item of the output is either an original line of the file with its own bytes
    and terminator, or an added line of an applied hunk with the terminator it has in the patch -/
theorem output_sources (file : List Line) (p0 : Patch) (o : ApplyOpts) (tty : Option (List Bool)) (r : ApplyResult)
    (hwf : ∀ h ∈ p0.hunks, h.WF) (hD : o.define = []) (hr : applyPatch file p0 o tty = .ok r) :
    ∀ x ∈ r.out,
      (∃ i l, x = Out.fromFile i l ∧ file[i]? = some l) ∨
      (∃ h ∈ r.patch.hunks, ∃ pl ∈ h.lines, pl.op = PLUS ∧ x = Out.fromPatch pl.line) := by
  sorry

/-- **C03 for the whole loop**: if the run is not in the "skip" state, every hunk that was rejected had no admissible placement in the
    part of the file not yet consumed when its turn came: there is a cursor position (the end of the hunks applied before it) from
    which no placement at any permitted fuzz existed -/
theorem rejected_had_no_placement (file : List Line) (p0 : Patch) (o : ApplyOpts) (tty : Option (List Bool)) (r : ApplyResult)
    (hwf : ∀ h ∈ p0.hunks, h.WF) (hD : o.define = []) (hr : applyPatch file p0 o tty = .ok r) (hs : r.skipped = false) :
    ∀ ih ∈ r.rejected, ∃ h c, r.patch.hunks[ih.1]? = some h ∧ c ≤ file.length ∧
      (h.old.count ≠ 0 → ∀ q f, c ≤ q → admissibleB file h o.ignoreWhitespace o.maxFuzz q f = false) := by
  sorry

end PatchModel.W2
