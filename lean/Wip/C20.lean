import PatchModel.Props.C20
