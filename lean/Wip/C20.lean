/-
  C20 — `-D SYM` output is a correct conditional merge of old and new.
-/
import PatchModel.Spec.Script
import PatchModel.Spec.Cpp
namespace PatchModel.C20
open PatchModel

/-- **C20**: for every file and every valid script whose lines are all terminated and free of the four directives,
    with `-D sym`: apply_patch returns; read by a preprocessor with `sym` defined the output is exactly the new file,
    with `sym` undefined exactly the original; in particular every conditional opened is closed (`cppEval` is `some`),
    and nothing is rejected. Covers hunks at the first and last line, creation from an empty file (file = []),
    deletion of everything (splice = []). -/
theorem C20_merge (file : List Line) (hs : List Hunk) (p0 : Patch) (o : ApplyOpts) (tty : Option (List Bool)) (sym : Bytes)
    (hv : Valid file 0 0 hs) (hp : p0.hunks = hs)
    (hsym : sym ≠ []) (hD : o.define = sym) (hR : o.reverse = false) (hF : 0 ≤ o.maxFuzz)
    (hfileT : ∀ l ∈ file, l.newline ≠ .none)
    (hpatchT : ∀ h ∈ hs, ∀ pl ∈ h.lines, pl.line.newline ≠ .none)
    (hfileD : ∀ l ∈ file, notDirective sym l)
    (hpatchD : ∀ h ∈ hs, ∀ pl ∈ h.lines, notDirective sym pl.line)
    (hg : ∀ h ∈ hs, grouped h.lines = true) :
    ∃ r, applyPatch file p0 o tty = .ok r ∧
      cppEval sym true (r.out.map Out.line) = some (splice file 0 hs) ∧
      cppEval sym false (r.out.map Out.line) = some file ∧
      r.rejected = [] := by
  sorry

/-- lines common to both versions appear once, outside any conditional: every original line that is not deleted is
    written exactly once and directly evaluates to itself whether or not `sym` is defined — stated on one hunk:
    a context line of a placed hunk is preceded by a closing `#endif` whenever a conditional is open. -/
theorem defineLoop_context_outside (file : List Line) (sym : Bytes) (pl : PatchLine) (rest : List PatchLine)
    (cur : Nat) (st : DefState) (w : DefW) (l : Line)
    (hop : pl.op = SP) (hl : file[cur]? = some l) :
    defineLoop file sym (pl :: rest) cur st w =
      defineLoop file sym rest (cur + 1) .outside
        ((if st ≠ .outside then w.directive dEndif (terminatorOf l) else w).line (.fromFile cur l)) := by
  sorry

/-- all three diff emitters and both orders of `hunk_from_context_parts` only produce grouped hunks: a run of
    deletions followed by a run of additions is grouped -/
theorem grouped_minus_plus (ctx1 : List Line) (dels adds : List Line) (ctx2 : List Line) :
    grouped (ctx1.map (⟨SP, ·⟩) ++ dels.map (⟨MINUS, ·⟩) ++ adds.map (⟨PLUS, ·⟩) ++ ctx2.map (⟨SP, ·⟩)) = true := by
  sorry

end PatchModel.C20
