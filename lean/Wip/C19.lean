/-
  C19 — option spellings are interchangeable; bad command lines are rejected.
  All theorems are over an arbitrary well-formed option table; `table_wf` instantiates them for the table that
  tools/gen_tables.py regenerates from src/options.cpp on every run.
-/
import PatchModel.Model.Cmdline
namespace PatchModel.C19
open PatchModel

/-- the byte of a short option name (short names of long-only options are > 127 and have none) -/
def shortByte (o : Opt) : Option UInt8 :=
  if 0 ≤ o.shortName ∧ o.shortName < 128 then some (UInt8.ofNat o.shortName.toNat) else none

/-- well-formedness of an option table: distinct short names, distinct long names, long names start with "--",
    are longer than that and contain no '='; no short name is '-' or the operand code '?' -/
def tableWF (t : List Opt) : Bool :=
  (t.map (·.shortName)).Nodup && (t.map (·.longName)).Nodup &&
  t.all fun o => [MINUS, MINUS].isPrefixOf o.longName && decide (o.longName.length > 2) && !o.longName.contains EQ
    && o.shortName != 45 && o.shortName != OPERAND && decide (-128 ≤ o.shortName)

/-- the regenerated table is well formed -/
theorem table_wf : tableWF optionTable = true := by
  sorry

/-- `CmdLineParser::parse` with the fuel `commandLine` gives it -/
def parseArgv (t : List Opt) (argv : List Bytes) : List OptCall × Option Exn := parseArgs t (argv.length + 1) argv

/-- two command lines are interchangeable: same resulting options, or both rejected -/
def Same (t : List Opt) (a b : List Bytes) : Prop :=
  ∀ env, (commandLine t a env).toOption = (commandLine t b env).toOption

/-- short option: attached argument ≡ separate argument -/
theorem short_attached_separate (t : List Opt) (hw : tableWF t = true) (o : Opt) (ho : o ∈ t) (harg : o.hasArg = true)
    (c : UInt8) (hc : shortByte o = some c) (v : Bytes) (hv : v ≠ []) (rest : List Bytes) :
    parseArgv t (([MINUS, c] ++ v) :: rest) = parseArgv t ([MINUS, c] :: v :: rest) := by
  sorry

/-- long option: `--name=value` ≡ `--name value` -/
theorem long_eq_separate (t : List Opt) (hw : tableWF t = true) (o : Opt) (ho : o ∈ t) (harg : o.hasArg = true)
    (v : Bytes) (rest : List Bytes) :
    parseArgv t ((o.longName ++ [EQ] ++ v) :: rest) = parseArgv t (o.longName :: v :: rest) := by
  sorry

/-- short form ≡ long form -/
theorem short_long (t : List Opt) (hw : tableWF t = true) (o : Opt) (ho : o ∈ t)
    (c : UInt8) (hc : shortByte o = some c) (rest : List Bytes) :
    parseArgv t ([MINUS, c] :: rest) = parseArgv t (o.longName :: rest) := by
  sorry

/-- any unambiguous prefix of a long name ≡ the full name (with or without `=value`) -/
theorem prefix_unambiguous (t : List Opt) (hw : tableWF t = true) (o : Opt) (ho : o ∈ t)
    (pre : Bytes) (hlen : pre.length > 2) (hp : pre.isPrefixOf o.longName = true)
    (huniq : ∀ o' ∈ t, pre.isPrefixOf o'.longName = true → o' = o)
    (suffix : Bytes) (hs : suffix = [] ∨ suffix.head? = some EQ) (next : List Bytes) :
    parseLong t (pre ++ suffix) next = parseLong t (o.longName ++ suffix) next := by
  sorry

/-- a prefix matching two or more long names and equal to none is rejected -/
theorem prefix_ambiguous (t : List Opt) (hw : tableWF t = true) (o1 o2 : Opt) (h1 : o1 ∈ t) (h2 : o2 ∈ t) (hne : o1 ≠ o2)
    (pre : Bytes) (hp1 : pre.isPrefixOf o1.longName = true) (hp2 : pre.isPrefixOf o2.longName = true)
    (hno : ∀ o ∈ t, o.longName ≠ pre) (hnoeq : ¬ pre.contains EQ)
    (suffix : Bytes) (hs : suffix = [] ∨ suffix.head? = some EQ) (next : List Bytes) :
    parseLong t (pre ++ suffix) next = .error .cmdlineError := by
  sorry

/-- bundled short flags ≡ the flags one by one -/
theorem bundle (t : List Opt) (hw : tableWF t = true) (cs : List UInt8) (hne : cs ≠ [])
    (hflags : ∀ c ∈ cs, ∃ o ∈ t, shortByte o = some c ∧ o.hasArg = false) (rest : List Bytes) :
    parseArgv t (([MINUS] ++ cs) :: rest) = parseArgv t (cs.map (fun c => [MINUS, c]) ++ rest) := by
  sorry

/-- `--` ends option parsing: everything after it is an operand -/
theorem dashdash (t : List Opt) (rest : List Bytes) :
    parseArgv t ([MINUS, MINUS] :: rest) = (rest.map fun a => (OPERAND, a), none) := by
  sorry

/-- an operand (anything not starting with '-', or "-" itself) may be placed before or after a flag -/
theorem operand_flag_commute (t : List Opt) (hw : tableWF t = true) (x : Bytes) (hx : x.head? ≠ some MINUS ∨ x = [MINUS])
    (f : Bytes) (o : Opt) (ho : o ∈ t) (hflag : o.hasArg = false)
    (hf : f = o.longName ∨ ∃ c, shortByte o = some c ∧ f = [MINUS, c]) (rest : List Bytes) :
    Same t (x :: f :: rest) (f :: x :: rest) := by
  sorry

/-- an operand may be placed before or after an option with its argument — except `-i`, which shares its slot with the
    second operand (known behaviour D21) -/
theorem operand_option_commute (t : List Opt) (hw : tableWF t = true) (x : Bytes) (hx : x.head? ≠ some MINUS ∨ x = [MINUS])
    (f v : Bytes) (o : Opt) (ho : o ∈ t) (harg : o.hasArg = true) (hi : o.shortName ≠ 105)
    (hf : f = o.longName ∨ ∃ c, shortByte o = some c ∧ f = [MINUS, c]) (rest : List Bytes) :
    Same t (x :: f :: v :: rest) (f :: v :: x :: rest) := by
  sorry

/-! ### rejections: each of these makes `commandLine` fail (main maps every failure to exit status 2 before any file is touched) -/

theorem reject_unknown_short (t : List Opt) (c : UInt8) (hc : ∀ o ∈ t, o.shortName ≠ charVal c) (hm : c ≠ MINUS)
    (more : Bytes) (pre rest : List Bytes) (env : Env)
    (hpre : ∀ a ∈ pre, a.head? ≠ some MINUS) :
    (commandLine t (pre ++ ([MINUS, c] ++ more) :: rest) env).toOption = none := by
  sorry

theorem reject_unknown_long (t : List Opt) (arg : Bytes) (h2 : [MINUS, MINUS].isPrefixOf arg = true) (hlen : arg.length > 2)
    (hnone : ∀ o ∈ t, (arg.takeWhile (· != EQ)).isPrefixOf o.longName = false)
    (pre rest : List Bytes) (env : Env) (hpre : ∀ a ∈ pre, a.head? ≠ some MINUS) :
    (commandLine t (pre ++ arg :: rest) env).toOption = none := by
  sorry

theorem reject_missing_argument (t : List Opt) (hw : tableWF t = true) (o : Opt) (ho : o ∈ t) (harg : o.hasArg = true)
    (f : Bytes) (hf : f = o.longName ∨ ∃ c, shortByte o = some c ∧ f = [MINUS, c])
    (pre : List Bytes) (env : Env) (hpre : ∀ a ∈ pre, a.head? ≠ some MINUS) :
    (commandLine t (pre ++ [f]) env).toOption = none := by
  sorry

theorem reject_flag_with_value (t : List Opt) (hw : tableWF t = true) (o : Opt) (ho : o ∈ t) (hflag : o.hasArg = false)
    (v : Bytes) (pre rest : List Bytes) (env : Env) (hpre : ∀ a ∈ pre, a.head? ≠ some MINUS) :
    (commandLine t (pre ++ (o.longName ++ [EQ] ++ v) :: rest) env).toOption = none := by
  sorry

/-- a non-numeric (or out of range) argument to -F / -p -/
theorem reject_non_numeric (v : Bytes) (hv : (stoi v).toOption = none) (code : Int) (hc : code = 70 ∨ code = 112)
    (st : HandlerState) : (processOption st (code, v)).toOption = none := by
  sorry

/-- what counts as a number: optional blanks, optional sign, digits, nothing after -/
theorem stoi_digits (ds : Bytes) (hne : ds ≠ []) (hd : ∀ c ∈ ds, 48 ≤ c ∧ c ≤ 57) (hsmall : ds.length ≤ 9) :
    ∃ n : Int, stoi ds = .ok n ∧ 0 ≤ n := by
  sorry

theorem stoi_rejects_trailing (s : Bytes) (c : UInt8) (hc : ¬ (48 ≤ c ∧ c ≤ 57))
    (hne : s ≠ []) (hd : ∀ d ∈ s, 48 ≤ d ∧ d ≤ 57) : (stoi (s ++ [c])).toOption = none := by
  sorry

/-- a third operand -/
theorem reject_third_operand (st : HandlerState) (hp : st.positional = 2) (v : Bytes) :
    (processOption st (OPERAND, v)).toOption = none := by
  sorry

theorem third_operand_rejected (t : List Opt) (a b c : Bytes)
    (ha : a.head? ≠ some MINUS) (hb : b.head? ≠ some MINUS) (hc : c.head? ≠ some MINUS) (env : Env) :
    (commandLine t [a, b, c] env).toOption = none := by
  sorry

end PatchModel.C19
