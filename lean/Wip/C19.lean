import PatchModel.Props.C19
