import PatchModel.Props.C05
