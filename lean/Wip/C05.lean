/-
  C05 (apply_patch level) — reverse application is the inverse of application.
-/
import PatchModel.Spec.Script
namespace PatchModel.C05
open PatchModel

theorem reverse_involutive (h : Hunk) : reverseHunk (reverseHunk h) = h := by
  sorry

theorem reversePatch_involutive (p : Patch) : reversePatch (reversePatch p) = p := by
  sorry

/-- reversal exchanges the sides -/
theorem reverse_sides (h : Hunk) :
    oldOf (reverseHunk h).lines = newOf h.lines ∧ newOf (reverseHunk h).lines = oldOf h.lines ∧
    (reverseHunk h).old = h.new ∧ (reverseHunk h).new = h.old := by
  sorry

/-- reversal exchanges creation and deletion and the two names -/
theorem reversePatch_operation (p : Patch) :
    ((reversePatch p).operation = .add ↔ p.operation = .delete) ∧
    ((reversePatch p).operation = .delete ↔ p.operation = .add) ∧
    (p.operation = .rename → (reversePatch p).operation = .rename) ∧
    (reversePatch p).oldPath = p.newPath ∧ (reversePatch p).newPath = p.oldPath ∧
    (reversePatch p).oldMode = p.newMode ∧ (reversePatch p).newMode = p.oldMode := by
  sorry

/-- the reversed-D2 exclusion: no hunk whose *new* side is empty and stated at line 0 while the new file is not empty -/
def NoReversedD2 (file : List Line) (hs : List Hunk) : Prop :=
  ∀ h ∈ hs, ¬ (h.new.count = 0 ∧ h.new.start = 0 ∧ splice file 0 hs ≠ [])

/-- the reversed script is a valid script of the new file and leads back to the old one -/
theorem reverse_valid (file : List Line) (hs : List Hunk)
    (hv : Valid file 0 0 hs) (hx : NoReversedD2 file hs) :
    Valid (splice file 0 hs) 0 0 (hs.map reverseHunk) ∧
    splice (splice file 0 hs) 0 (hs.map reverseHunk) = file := by
  sorry

/-- **C05 core**: for any diff `hs` of A to B = splice A hs, applying it with -R to B yields A, nothing rejected,
    every hunk perfect, no question asked -/
theorem C05_core (file : List Line) (hs : List Hunk) (p0 : Patch) (o : ApplyOpts) (tty : Option (List Bool))
    (hv : Valid file 0 0 hs) (hx : NoReversedD2 file hs) (hp : p0.hunks = hs)
    (hD : o.define = []) (hR : o.reverse = true) (hF : 0 ≤ o.maxFuzz) :
    ∃ r, applyPatch (splice file 0 hs) p0 o tty = .ok r ∧
      r.out.map Out.line = file ∧ r.rejected = [] ∧ r.failed = 0 ∧ r.perfect = true ∧ r.skipped = false ∧
      (o.verbose = false → r.msgs = []) ∧ r.tty = tty ∧ r.patch = reversePatch p0 := by
  sorry

/-- apply, then apply the same patch with -R: the original lines come back -/
theorem C05_roundtrip (file : List Line) (hs : List Hunk) (p0 : Patch) (o : ApplyOpts) (tty : Option (List Bool))
    (hv : Valid file 0 0 hs) (hx : NoReversedD2 file hs) (hp : p0.hunks = hs)
    (hD : o.define = []) (hR : o.reverse = false) (hF : 0 ≤ o.maxFuzz) :
    ∃ r1 r2, applyPatch file p0 o tty = .ok r1 ∧
      applyPatch (r1.out.map Out.line) p0 { o with reverse := true } tty = .ok r2 ∧
      r2.out.map Out.line = file ∧ r1.rejected = [] ∧ r2.rejected = [] := by
  sorry

end PatchModel.C05
