import PatchModel.Props.C06
