/-
  C06 (apply_patch level) — an already applied patch is detected, not applied a second time.
  History: `file` was patched with the valid script `hs`, giving `B = splice file 0 hs`; the same patch is run on `B`.
-/
import PatchModel.Spec.Script
namespace PatchModel.C06
open PatchModel

/-- the reversed-D2 exclusion (see C05) -/
def NoReversedD2 (file : List Line) (hs : List Hunk) : Prop :=
  ∀ h ∈ hs, ¬ (h.new.count = 0 ∧ h.new.start = 0 ∧ splice file 0 hs ≠ [])

/-- the inherently ambiguous case is excluded: the first hunk does not apply exactly at its stated line of `B`
    (in particular it is not a context-free insertion, which "fits" anywhere) -/
def FirstHunkNoLongerFits (B : List Line) (h1 : Hunk) (o : ApplyOpts) : Prop :=
  h1.old.count ≠ 0 ∧ admissibleB B h1 o.ignoreWhitespace o.maxFuzz h1.pos0.toNat 0 = false

/-- with -N: the file stays as it is, every hunk is saved as a reject (reported "ignored"), nothing is applied -/
theorem C06_N (file : List Line) (h1 : Hunk) (rest : List Hunk) (p0 : Patch) (o : ApplyOpts) (tty : Option (List Bool))
    (hv : Valid file 0 0 (h1 :: rest)) (hx : NoReversedD2 file (h1 :: rest)) (hp : p0.hunks = h1 :: rest)
    (hamb : FirstHunkNoLongerFits (splice file 0 (h1 :: rest)) h1 o)
    (hN : o.ignoreReversed = true) (hf : o.force = false) (hR : o.reverse = false)
    (hD : o.define = []) (hF : 0 ≤ o.maxFuzz) :
    ∃ r, applyPatch (splice file 0 (h1 :: rest)) p0 o tty = .ok r ∧
      r.out.map Out.line = splice file 0 (h1 :: rest) ∧
      r.skipped = true ∧ r.applied = [] ∧ r.failed = (h1 :: rest).length ∧
      r.rejected.map (·.1) = List.range (h1 :: rest).length ∧
      Msg.reversedDetected false ∈ r.msgs ∧ Msg.skippingPatch ∈ r.msgs ∧ r.tty = tty := by
  sorry

/-- with -t (and no -N): the patch is applied in reverse and restores the original lines -/
theorem C06_t (file : List Line) (h1 : Hunk) (rest : List Hunk) (p0 : Patch) (o : ApplyOpts) (tty : Option (List Bool))
    (hv : Valid file 0 0 (h1 :: rest)) (hx : NoReversedD2 file (h1 :: rest)) (hp : p0.hunks = h1 :: rest)
    (hamb : FirstHunkNoLongerFits (splice file 0 (h1 :: rest)) h1 o)
    (hN : o.ignoreReversed = false) (ht : o.batch = true) (hf : o.force = false) (hR : o.reverse = false)
    (hD : o.define = []) (hF : 0 ≤ o.maxFuzz) :
    ∃ r, applyPatch (splice file 0 (h1 :: rest)) p0 o tty = .ok r ∧
      r.out.map Out.line = file ∧ r.rejected = [] ∧ r.skipped = false ∧
      Msg.reversedDetected false ∈ r.msgs ∧ Msg.assumingR ∈ r.msgs ∧ r.tty = tty := by
  sorry

/-- with -f no guess is made: the result does not depend on the tty, nothing is asked, no "reversed" message -/
theorem C06_f (file : List Line) (p0 : Patch) (o : ApplyOpts) (tty : Option (List Bool))
    (hf : o.force = true) :
    (∀ r, applyPatch file p0 o tty = .ok r →
      r.tty = tty ∧ r.skipped = false ∧
      (∀ m ∈ r.msgs, ∀ u q, m ≠ Msg.reversedDetected u ∧ m ≠ Msg.assumingR ∧ m ≠ Msg.skippingPatch ∧ m ≠ Msg.asked q)) ∧
    (∀ tty', (applyPatch file p0 o tty').toOption.map (·.out) = (applyPatch file p0 o tty).toOption.map (·.out)) := by
  sorry

end PatchModel.C06
