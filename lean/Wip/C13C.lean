import PatchModel.Props.C13C
