/-
  C13 — context format round trip (see Wip/C13U.lean for the unified half).
-/
import PatchModel.Spec.Diff
namespace PatchModel.C13
open PatchModel

/-- **context round trip**: the hunks of a context format reject file (separator line between hunks, end of file after the
    last) are read back by `parse_context_patch` as hunks denoting the same changes: same old side, same new side
    (content and missing-newline marker), same ranges — the interleaving of '-' and '+' lines may differ. -/
theorem context_roundtrip (hs : List Hunk) (hne : hs ≠ []) (hw : ∀ h ∈ hs, h.writable = true)
    (bytes : Bytes) (hb : ctxRejectBody hs = .ok bytes) (lineNo : Nat) (fuel : Nat) (hf : hs.length < fuel) :
    ∃ hs' par', parseContextBody fuel { s := { rest := splitLines bytes }, lineNo := lineNo } [] = .ok (hs', par') ∧
      hs'.length = hs.length ∧
      (∀ i (hi : i < hs.length) (hi' : i < hs'.length), sameChange hs'[i] hs[i]) ∧
      par'.s.rest = [] := by
  sorry

/-- writing never fails for writable hunks, in either format -/
theorem context_write_ok (hs : List Hunk) (hw : ∀ h ∈ hs, h.writable = true) : ∃ bytes, ctxRejectBody hs = .ok bytes := by
  sorry

end PatchModel.C13
