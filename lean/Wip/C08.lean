import PatchModel.Props.C08
