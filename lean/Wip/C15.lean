import PatchModel.Props.C15
import PatchModel.Props.C16
