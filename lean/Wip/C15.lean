/-
  C15 / C16 (driver model) — --dry-run changes nothing; only the intended paths are touched.
-/
import PatchModel.Model.Driver
namespace PatchModel.C15
open PatchModel

/-- **C15 (purity)**: with --dry-run, whatever the patch does (modify, create, delete, rename, fail, abort), whatever the tree, the
    options and the tty: the only file system operations performed are the creation and immediate unlinking of anonymous temporary
    files, and the tree (bytes, modes, link targets) is exactly what it was — also when the run aborts with an exception. -/
theorem C15_pure (o : Options) (s0 : DState) (hd : o.dryRun = true) :
    (∃ ops, (runPatch o s0).2.trace = s0.trace ++ ops ∧ ∀ op ∈ ops, op.isTmp = true) ∧
    (runPatch o s0).2.fs = s0.fs := by
  sorry

/-- temporaries never outlive the operation that follows their creation: every `tmpCreate` in the trace of any run (dry or not)
    is immediately followed by `tmpUnlink` -/
theorem tmp_unlinked_at_once (o : Options) (s0 : DState) (h0 : s0.trace = []) (hf : s0.faultAt = none) :
    ∀ i, (runPatch o s0).2.trace[i]? = some FsOp.tmpCreate → (runPatch o s0).2.trace[i + 1]? = some FsOp.tmpUnlink := by
  sorry

end PatchModel.C15

namespace PatchModel.C16
open PatchModel

/-- the paths a run may touch, given the (file to patch, output file) pairs of its sections: those two, the reject file, the backup
    file, and the directories leading to any of them (created when missing, removed when emptied) -/
def allowedPath (o : Options) (s : DState) (p : Bytes) : Prop :=
  ∃ fo ∈ s.sections, ∃ c ∈ [fo.1, fo.2, rejectPath o fo.2, backupName o fo.2],
    p = absPath s c ∨ ∃ d ∈ dirPrefixes c, p = absPath s d

/-- **C16**: every mutating operation of a run is on an allowed path or on an anonymous temporary -/
theorem C16_paths (o : Options) (s0 : DState)
    (h0 : s0.trace = [] ∧ s0.sections = [] ∧ s0.dWrites = [] ∧ s0.dRemovals = [] ∧ s0.cwd = []) :
    ∀ op ∈ (runPatch o s0).2.trace, op.isTmp = true ∨ ∀ p ∈ op.paths, allowedPath o (runPatch o s0).2 p := by
  sorry

end PatchModel.C16
