import PatchModel.Props.C03
