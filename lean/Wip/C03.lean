/-
  C03 — hunks that fit are found, with the least fuzz, at the stated place.
-/
import PatchModel.Spec.Script
namespace PatchModel.C03
open PatchModel

/-- if any admissible placement exists at or after `min_line`, the hunk is found, with fuzz no larger -/
theorem locate_complete (file : List Line) (h : Hunk) (iw : Bool) (offset maxFuzz : Int) (minLine : Nat)
    (p f : Nat) (hwf : h.WF) (hc : h.old.count ≠ 0) (hp : minLine ≤ p)
    (hadm : admissibleB file h iw maxFuzz p f = true) :
    ∃ loc, locateHunk file h iw offset maxFuzz minLine = some loc ∧ loc.fuzz ≤ (f : Int) := by
  sorry

/-- the fuzz used is the smallest at which any placement exists -/
theorem locate_least_fuzz (file : List Line) (h : Hunk) (iw : Bool) (offset maxFuzz : Int) (minLine : Nat)
    (loc : Location) (hloc : locateHunk file h iw offset maxFuzz minLine = some loc) (hwf : h.WF) (hc : h.old.count ≠ 0) :
    ∀ p f : Nat, minLine ≤ p → admissibleB file h iw maxFuzz p f = true → loc.fuzz ≤ (f : Int) := by
  sorry

/-- a hunk whose text sits exactly at its stated line (plus the accumulated offset) is applied exactly there -/
theorem locate_exact (file : List Line) (h : Hunk) (iw : Bool) (offset maxFuzz : Int) (minLine : Nat) (g : Nat)
    (hwf : h.WF) (hc : h.old.count ≠ 0) (hg : expectedLine h - 1 + offset = (g : Int)) (hm : minLine ≤ g)
    (hadm : admissibleB file h iw maxFuzz g 0 = true) :
    locateHunk file h iw offset maxFuzz minLine = some ⟨g, 0, 0⟩ := by
  sorry

/-- an insertion that carries no context goes exactly to its stated line (the exclusion is known finding D2) -/
theorem locate_insertion_exact (file : List Line) (h : Hunk) (iw : Bool) (offset maxFuzz : Int) (minLine : Nat) (g : Nat)
    (hc : h.old.count = 0) (hg : expectedLine h - 1 + offset = (g : Int)) (hm : minLine ≤ g) (hle : g ≤ file.length)
    (hD2 : ¬ (h.old.start = 0 ∧ file ≠ [])) :
    locateHunk file h iw offset maxFuzz minLine = some ⟨g, 0, 0⟩ := by
  sorry

/-- lifted to the hunk loop: outside the "skip remaining hunks" state, a well-formed hunk that has an admissible
    placement in the not yet consumed part of the file is applied (appended to `applied`), never rejected -/
theorem C03_step (file : List Line) (o : ApplyOpts) (p : Patch) (s : AState) (num : Nat) (h : Hunk) (q f : Nat)
    (hwf : h.WF) (hc : h.old.count ≠ 0) (hskip : s.skip = false) (hD : o.define = [])
    (hcur : s.cursor ≤ q) (hadm : admissibleB file h o.ignoreWhitespace o.maxFuzz q f = true) :
    ∃ s' loc, locateHunk file h o.ignoreWhitespace s.offErr o.maxFuzz s.cursor = some loc ∧
      finishHunk file o p s num h (some loc) = .ok s' ∧
      s'.applied = s.applied ++ [(num, loc)] ∧ s'.rejected = s.rejected ∧ loc.fuzz ≤ (f : Int) := by
  sorry

end PatchModel.C03
