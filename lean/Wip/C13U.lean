import PatchModel.Props.C13U
