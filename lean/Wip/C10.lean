/-
  C10 (driver model) — I/O failures are never reported as success.
-/
import PatchModel.Model.Driver
namespace PatchModel.C10
open PatchModel

/-- **single fault**: if the k-th file system operation of a run fails, the run ends with an exception (`main` prints a diagnostic and
    exits with status 2) — nothing in the driver catches, ignores or retries a failed operation -/
theorem fault_is_fatal (o : Options) (s0 : DState) (k : Nat) (hk : s0.faultAt = some k) (hc : s0.opCount = 0)
    (hh : o.showHelp = false ∧ o.showVersion = false)
    (hreached : (runPatch o s0).2.opCount > k) :
    (runPatch o s0).1 = 2 := by
  sorry

/-- a fault scheduled beyond the last operation of the run is harmless: the run is identical to the fault-free run -/
theorem fault_not_reached (o : Options) (s0 : DState) (k : Nat) (hc : s0.opCount = 0)
    (hnot : (runPatch o { s0 with faultAt := none }).2.opCount ≤ k) :
    (runPatch o { s0 with faultAt := some k }).1 = (runPatch o { s0 with faultAt := none }).1 ∧
    (runPatch o { s0 with faultAt := some k }).2.fs = (runPatch o { s0 with faultAt := none }).2.fs ∧
    (runPatch o { s0 with faultAt := some k }).2.out = (runPatch o { s0 with faultAt := none }).2.out := by
  sorry

/-- up to the fault the two runs are the same run: the operations performed before it are a prefix of the fault-free trace -/
theorem fault_prefix (o : Options) (s0 : DState) (k : Nat) (hc : s0.opCount = 0) (ht : s0.trace = []) :
    ∃ rest, (runPatch o { s0 with faultAt := none }).2.trace = (runPatch o { s0 with faultAt := some k }).2.trace ++ rest := by
  sorry

end PatchModel.C10
