import PatchModel.Props.C10
