/-
  C14 — line endings and the final newline are written as promised.
-/
import PatchModel.Spec.Script
import PatchModel.Model.Stream
namespace PatchModel.C14
open PatchModel

/-- reading a file into lines and writing the lines back in `preserve` mode is the identity on all byte strings -/
theorem read_write_id (bs : Bytes) : renderLines .keep (splitLines bs) = bs := by
  sorry

/-- lf (and native on Unix): contents unchanged, every terminator written is LF, a line without one gets none -/
theorem render_lf (m : NewlineOutput) (hm : m = .lf ∨ m = .native) (ls : List Line) :
    renderLines m ls = ls.flatMap fun l => l.content ++ (if l.newline = .none then [] else [NL]) := by
  sorry

theorem render_crlf (ls : List Line) :
    renderLines .crlf ls = ls.flatMap fun l => l.content ++ (if l.newline = .none then [] else [CR, NL]) := by
  sorry

/-- preserve: every line keeps exactly the terminator it carries -/
theorem render_keep (ls : List Line) :
    renderLines .keep ls = ls.flatMap fun l => l.content ++
      (match l.newline with | .none => [] | .lf => [NL] | .crlf => [CR, NL]) := by
  sorry

/-- in all modes the output ends without a newline exactly when its last line has none -/
theorem final_newline (m : NewlineOutput) (ls : List Line) (last : Line) (h : ls.getLast? = some last) :
    (last.newline ≠ .none → (renderLines m ls).getLast? = some NL) ∧
    (last.newline = .none → last.content ≠ [] → last.content.getLast? ≠ some NL →
      (renderLines m ls).getLast? ≠ some NL) := by
  sorry

/-- invariants of every line ever read from a file -/
theorem splitLines_noNL (bs : Bytes) : ∀ l ∈ splitLines bs, NL ∉ l.content := by
  sorry

theorem splitLines_none_nonempty (bs : Bytes) : ∀ l ∈ splitLines bs, l.newline = .none → l.content ≠ [] := by
  sorry

theorem splitLines_lf_noCR (bs : Bytes) : ∀ l ∈ splitLines bs, l.newline = .lf → l.content.getLast? ≠ some CR := by
  sorry

/-- only the last line of a file can lack a terminator -/
theorem splitLines_none_last (bs : Bytes) (pre post : List Line) (l : Line)
    (h : splitLines bs = pre ++ l :: post) (hn : l.newline = .none) : post = [] := by
  sorry

/-- what a placed hunk writes: original lines come from the file (with the file's terminator), added lines from the
    patch (with the patch's terminator); nothing else -/
theorem hunkOutput_sources (file : List Line) (ls : List PatchLine) (p : Nat) :
    ∀ o ∈ hunkOutput file ls p,
      (∃ i l, o = Out.fromFile i l ∧ file[i]? = some l) ∨
      (∃ pl ∈ ls, pl.op = PLUS ∧ o = Out.fromPatch pl.line) := by
  sorry

theorem spliceAt_sources (file : List Line) (c : Nat) (pls : List (Hunk × Nat)) :
    ∀ o ∈ spliceAt file c pls,
      (∃ i l, o = Out.fromFile i l ∧ file[i]? = some l) ∨
      (∃ hp ∈ pls, ∃ pl ∈ hp.1.lines, pl.op = PLUS ∧ o = Out.fromPatch pl.line) := by
  sorry

end PatchModel.C14
