import PatchModel.Props.C14
