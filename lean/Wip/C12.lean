import PatchModel.Props.C12
