/-
  C18 / C04 (exit status) / C09 (driver model).
-/
import PatchModel.Model.Driver
import PatchModel.Lemmas.DriverFacts
namespace PatchModel.C18
open PatchModel PatchModel.DriverFacts

/-- backup name: prefix + path + suffix per -B / -z, ".orig" appended when neither is given -/
theorem backupName_spec (o : Options) (p : Bytes) :
    (o.backupPrefix = [] → o.backupSuffix = [] → backupName o p = p ++ str ".orig") ∧
    (o.backupPrefix ≠ [] ∨ o.backupSuffix ≠ [] → backupName o p = o.backupPrefix ++ p ++ o.backupSuffix) := by
  unfold backupName
  cases h1 : o.backupPrefix <;> cases h2 : o.backupSuffix <;> simp

/-- the first backup of an existing regular file moves its bytes and mode to the backup name; the target path is then free -/
theorem makeBackupFor_existing (o : Options) (p : Bytes) (s : DState) (b : Bytes) (m : Nat)
    (hnot : ¬ s.backedUp.contains (backupName o p) = true)
    (hfile : s.fs.lookup (absPath s p) = some (.file b m))
    (hdir : s.fs.dirExists (parentOf (absPath s (backupName o p))) = true)
    (hne : absPath s (backupName o p) ≠ absPath s p)
    (hf : s.faultAt = none) :
    ∃ s', (makeBackupFor o p).run s = (.ok (), s') ∧
      s'.fs.lookup (absPath s (backupName o p)) = some (.file b m) ∧
      s'.fs.lookup (absPath s p) = none ∧
      s'.backedUp.contains (backupName o p) = true ∧
      s'.trace = s.trace ++ [FsOp.rename (absPath s p) (absPath s (backupName o p))] := by
  have hst := Fs.stat_of_file hfile
  have happ : s.fs.apply (.rename (absPath s p) (absPath s (backupName o p))) =
      .ok ((s.fs.erase (absPath s p)).set (absPath s (backupName o p)) (.file b m)) := by
    simp only [Fs.apply, hfile, hdir]; rfl
  refine ⟨{ s with backedUp := s.backedUp ++ [backupName o p],
                   fs := (s.fs.erase (absPath s p)).set (absPath s (backupName o p)) (.file b m),
                   trace := s.trace ++ [FsOp.rename (absPath s p) (absPath s (backupName o p))],
                   opCount := s.opCount + 1 }, ?_, ?_, ?_, ?_, ?_⟩
  · rw [makeBackupFor_run, if_neg hnot, hst, if_pos (by rfl)]
    exact doOp_run_ok hf happ
  · exact Fs.lookup_set_self _ _ _
  · show (Fs.set _ _ _).lookup _ = none
    rw [Fs.lookup_set_ne _ _ _ _ (Ne.symm hne), Fs.lookup_erase_self]
  · simp
  · rfl

/-- a target that does not exist yields an empty backup file -/
theorem makeBackupFor_absent (o : Options) (p : Bytes) (s : DState)
    (hnot : ¬ s.backedUp.contains (backupName o p) = true)
    (habs : s.fs.stat (absPath s p) = none)
    (hnone : s.fs.stat (absPath s (backupName o p)) = none) (hnl : s.fs.lookup (absPath s (backupName o p)) = none)
    (hdir : s.fs.dirExists (parentOf (absPath s (backupName o p))) = true)
    (hf : s.faultAt = none) :
    ∃ s' m, (makeBackupFor o p).run s = (.ok (), s') ∧
      s'.fs.lookup (absPath s (backupName o p)) = some (.file [] m) := by
  have happ : s.fs.apply (.creat (absPath s (backupName o p))) =
      .ok (s.fs.set (absPath s (backupName o p)) (.file [] (0o666 - (0o666 &&& s.fs.umask)))) := by
    simp only [Fs.apply, hnone, hdir]; rfl
  refine ⟨{ s with backedUp := s.backedUp ++ [backupName o p],
                   fs := s.fs.set (absPath s (backupName o p)) (.file [] (0o666 - (0o666 &&& s.fs.umask))),
                   trace := s.trace ++ [FsOp.creat (absPath s (backupName o p))],
                   opCount := s.opCount + 1 }, (0o666 - (0o666 &&& s.fs.umask)), ?_, ?_⟩
  · rw [makeBackupFor_run, if_neg hnot, habs, if_neg (by simp)]
    exact doOp_run_ok hf happ
  · exact Fs.lookup_set_self _ _ _

/-- several patches for one file: only the first backup is made — a later call for the same backup name does nothing at all -/
theorem makeBackupFor_again (o : Options) (p : Bytes) (s : DState) (hin : s.backedUp.contains (backupName o p) = true) :
    (makeBackupFor o p).run s = (.ok (), s) := by
  rw [makeBackupFor_run, if_pos hin]

end PatchModel.C18

namespace PatchModel.C04x
open PatchModel PatchModel.DriverFacts

/-- the events that make a run "not clean" -/
def badEvent : DEv → Bool
  | .failed _ _ _ _ => true
  | .skipping => true
  | .refusing => true
  | .notDeleting => true
  | .binary => true
  | _ => false

/-- the exit status is 0, 1 or 2 -/
theorem exit_range (o : Options) (s0 : DState) : (runPatch o s0).1 = 0 ∨ (runPatch o s0).1 = 1 ∨ (runPatch o s0).1 = 2 := by
  unfold runPatch
  split
  · exact Or.inl rfl
  · split
    · split
      · exact Or.inr (Or.inl rfl)
      · exact Or.inl rfl
    · exact Or.inr (Or.inr rfl)

/-- **exit status tells the truth**: 2 exactly when an exception reached `main`; otherwise 1 exactly when some hunk was rejected or
    ignored, a patch was skipped, refused, is a binary diff, or a file could not be deleted; 0 otherwise -/
theorem exit_truth (o : Options) (s0 : DState) (h0 : s0.hadFailure = false ∧ s0.out = [])
    (hh : o.showHelp = false ∧ o.showVersion = false) :
    ((runPatch o s0).1 = 2 ↔ ∃ e s, (processPatchM o).run s0 = (.error e, s)) ∧
    ((runPatch o s0).1 = 1 ↔ (∃ s, (processPatchM o).run s0 = (.ok (), s)) ∧ ∃ ev ∈ (runPatch o s0).2.out, badEvent ev = true) ∧
    ((runPatch o s0).1 = 0 ↔ (∃ s, (processPatchM o).run s0 = (.ok (), s)) ∧ ∀ ev ∈ (runPatch o s0).2.out, badEvent ev = false) := by
  sorry

end PatchModel.C04x

namespace PatchModel.C09
open PatchModel PatchModel.DriverFacts

/-- an abort keeps the tree exactly as it was at the instant of the exception (no cleanup, no rollback, no further writes) -/
theorem abort_keeps_state (o : Options) (s0 s : DState) (e : Exn) (hh : o.showHelp = false ∧ o.showVersion = false)
    (h : (processPatchM o).run s0 = (.error e, s)) : runPatch o s0 = (2, s) := by
  unfold runPatch
  rw [hh.1, hh.2, h]
  rfl

/-- **a section is all or nothing with respect to the patch text**: when a section is abandoned because of its text (parser error,
    malformed counts: `parser_error` / `invalid_argument`), it has not touched any file content: the only operations it performed are
    on anonymous temporaries, or a `chmod` (the write permission given to a read-only target) -/
theorem section_atomic (o : Options) (format : Format) (s s' : DState) (e : Exn)
    (h : (processSection o format).run s = (.error e, s')) (he : e = .parserError ∨ e = .invalidArgument) :
    ∃ ops, s'.trace = s.trace ++ ops ∧ ∀ op ∈ ops, op.isTmp = true ∨ ∃ p m, op = FsOp.chmod p m := by
  sorry

/-- a file is written in one go: `creat` is always directly followed by the `write` of the whole content (or by nothing, for empty
    content); no other statement — in particular nothing that can throw because of the patch text — lies between them -/
theorem writeFile_trace (p content : Bytes) (s s' : DState) (h : (writeFile p content).run s = (.ok (), s')) :
    s'.trace = s.trace ++ (if content.isEmpty then [FsOp.creat (absPath s p)] else [FsOp.creat (absPath s p), FsOp.write (absPath s p) content]) := by
  unfold writeFile at h
  rw [run_bind, run_opCreat] at h
  split at h
  · next a s1 h1 =>
    rcases doOp_cases h1 with ⟨_, fs', _, rfl⟩ | ⟨h2, _⟩
    · rw [run_opWrite] at h
      split at h
      · next hc => cases h; rw [if_pos hc]
      · next hc =>
        rw [if_neg hc]
        rcases doOp_cases h with ⟨_, fs2, _, rfl⟩ | ⟨h2, _⟩
        · show (s.trace ++ [_]) ++ [_] = _
          rw [List.append_assoc]; rfl
        · cases h2
    · cases h2
  · cases h

/-- the sources of git renames are removed only after every deferred file has been completely written: in the operations of
    `DeferredWriter::finalize` no `unlink`/`rmdir` precedes a `creat`/`write`/`chmod`/`mkdir` -/
theorem finalize_removals_last (s s' : DState) (r : Except Exn Unit) (h : finalizeDeferred.run s = (r, s')) :
    ∃ ws rs, s'.trace = s.trace ++ ws ++ rs ∧
      (∀ op ∈ ws, ∀ p, op ≠ FsOp.unlink p ∧ op ≠ FsOp.rmdir p) ∧
      (∀ op ∈ rs, ∃ p, op = FsOp.unlink p ∨ op = FsOp.rmdir p) := by
  unfold finalizeDeferred at h
  rw [run_bind, run_get] at h
  refine TrExt.seq2 (A := fun op => ∀ p, op ≠ FsOp.unlink p ∧ op ≠ FsOp.rmdir p)
    (B := fun op => ∃ p, op = FsOp.unlink p ∨ op = FsOp.rmdir p) ?_ (fun _ => ?_) h
  · spec_walk (good_ext _)
    · exact ensureParentDirs_trExt (by intro p q; simp) _
    · exact writeFile_trExt (by intro p q; simp) (by intro p b q; simp) _ _
    · exact permissionCallback_trExt (by intro p m q; simp) _ _ _
  · spec_walk (good_ext _)
    exact removeFileAndEmptyParents_trExt (fun p => ⟨p, Or.inl rfl⟩) (fun p => ⟨p, Or.inr rfl⟩) _

end PatchModel.C09
