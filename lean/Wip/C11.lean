import PatchModel.Props.C11
