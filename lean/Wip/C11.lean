/-
  C11 — a patch stream is the sum of its sections; surrounding text is ignored (parser level).
-/
import PatchModel.Spec.Inert
import PatchModel.Spec.Diff
namespace PatchModel.C11
open PatchModel

/-- an inert line is skipped by the header scan: nothing changes but the line counter (and the "what did the previous
    line look like" marker is reset), whatever the state of the scan — outside a git section -/
theorem inert_step (st : HState) (l : Bytes) (strip : Int) (hi : inertLine l = true) (hg : st.isGit = false) :
    headerStep st l strip = .ok ({ st with lines := st.lines + 1, thisLooks := .unknown }, true) := by
  sorry

/-- the same inside a git section for lines that are no extended header either -/
theorem inert_step_git (st : HState) (l : Bytes) (strip : Int) (hi : inertGitLine l = true) (hg : st.isGit = true) :
    headerStep st l strip = .ok ({ st with lines := st.lines + 1, thisLooks := .unknown }, true) := by
  sorry

/-- the header loop over a block of inert lines followed by anything: same as the loop started after the block, with the
    line counter advanced -/
theorem headerLoop_filler (strip : Int) (filler : List Line) (hin : ∀ l ∈ filler, inertLine l.content = true)
    (hterm : ∀ l ∈ filler, l.newline ≠ .none)
    (st : HState) (hg : st.isGit = false) (hflags : st.par.s.eof = false ∧ st.par.s.bad = false)
    (rest : List Line) (hrest : st.par.s.rest = filler ++ rest) (fuel : Nat) :
    headerLoop strip (fuel + filler.length) st =
      headerLoop strip fuel { st with par := { s := { st.par.s with rest := rest }, lineNo := st.par.lineNo + filler.length },
                                      lines := st.lines + filler.length,
                                      thisLooks := if filler = [] then st.thisLooks else .unknown } := by
  sorry

/-- text that is only filler is "only garbage": the scan finds no format, so the section loop stops there
    ("Hmm... Ignoring the trailing garbage") without producing a patch -/
theorem filler_only_unknown (strip : Int) (filler : List Line) (hin : ∀ l ∈ filler, inertLine l.content = true)
    (hterm : ∀ l ∈ filler, l.newline ≠ .none) (lineNo : Nat) :
    ∃ body info par', parseHeader { s := { rest := filler }, lineNo := lineNo } {} strip = .ok (body, {}, info, par') := by
  sorry

/-- trailing filler after the last section does not change what the section loop returns -/
theorem parseAll_trailing_filler (strip : Int) (filler : List Line) (hin : ∀ l ∈ filler, inertLine l.content = true)
    (hterm : ∀ l ∈ filler, l.newline ≠ .none) (acc : List Patch) (lineNo : Nat) (fuel : Nat) :
    ∃ par', parseAll .unknown strip (fuel + 1) { s := { rest := filler }, lineNo := lineNo } acc = .ok (acc, par', false) := by
  sorry

end PatchModel.C11
