/-
  C17 (driver model) — file modes are preserved and refusals leave files untouched.
-/
import PatchModel.Model.Driver
namespace PatchModel.C17
open PatchModel

/-- a read-only target with --read-only=fail is refused before anything is touched: no operation, tree unchanged -/
theorem readonly_fail_untouched (o : Options) (p : Bytes) (s : DState) (m : Nat) (b : Bytes)
    (hro : o.readOnly = .fail) (hfile : s.fs.stat (absPath s p) = some (.file b m)) (hnow : m &&& writeMask = 0) :
    ∃ s', (fixPermissionsIfNeeded o p).run s = (.ok { oldPerms := some m, needFix := true, hadFailure := true }, s') ∧
      s'.fs = s.fs ∧ s'.trace = s.trace := by
  sorry

/-- a writable target is left alone by the permission check -/
theorem writable_untouched (o : Options) (p : Bytes) (s : DState) (m : Nat) (b : Bytes)
    (hfile : s.fs.stat (absPath s p) = some (.file b m)) (hw : m &&& writeMask ≠ 0) :
    (fixPermissionsIfNeeded o p).run s = (.ok { oldPerms := some m, needFix := false, hadFailure := false }, s) := by
  sorry

/-- after the patched result has been written, the permission callback gives the file exactly the mode a git header asks for, or else
    the mode the target had before (also when it had to be made writable, and also when a backup renamed the original away) -/
theorem callback_mode (newMode : Nat) (perm : PermResult) (p : Bytes) (s : DState) (b : Bytes) (m0 : Nat)
    (hfile : s.fs.lookup (absPath s p) = some (.file b m0)) (hf : s.faultAt = none) :
    ∃ s', (permissionCallback newMode perm p).run s = (.ok (), s') ∧
      s'.fs.lookup (absPath s p) = some (.file b
        (if newMode != 0 then newMode &&& 0o7777 else match perm.oldPerms with | some m => m | none => m0)) := by
  sorry

/-- refusing a patch touches nothing but the reject file and the directories leading to it — never the target -/
theorem refuse_touches_only_rejects (o : Options) (outputFile : Bytes) (p : Patch) (s s' : DState) (r : Except Exn Unit)
    (h : (refuseToPatch o outputFile p).run s = (r, s')) :
    ∃ ops, s'.trace = s.trace ++ ops ∧
      ∀ op ∈ ops, ∀ q ∈ op.paths, q = absPath s (rejectPath o outputFile) ∨ ∃ d ∈ dirPrefixes (rejectPath o outputFile), q = absPath s d := by
  sorry

/-- with --dry-run a refusal touches nothing at all -/
theorem refuse_dry (o : Options) (outputFile : Bytes) (p : Patch) (s : DState) (hd : o.dryRun = true) :
    ∃ s', (refuseToPatch o outputFile p).run s = (.ok (), s') ∧ s'.fs = s.fs ∧ s'.trace = s.trace := by
  sorry

end PatchModel.C17
