import PatchModel.Props.C17
