/-
  C07 (what the model can carry) — numbers read from a patch are bounded so that the arithmetic done with them stays inside
  int64, indices stay inside their vectors, and every exception ends in exit status 2.
-/
import PatchModel.Model.Driver
import PatchModel.Spec.Script
namespace PatchModel.C07
open PatchModel

/-- representable as `int64_t` (`LineNumber`) -/
def inI64 (x : Int) : Prop := -9223372036854775808 ≤ x ∧ x ≤ 9223372036854775807

/-- the cap on line numbers read from a patch: 2^61 - 1 -/
def cap : Int := i64Max / 4

theorem cap_value : cap = 2305843009213693951 := by
  sorry

/-- every number `consume_line_number` accepts is within [0, cap] -/
theorem consumeLineNumber_bounded (r : Bytes) (cur : Int) (h : (consumeLineNumber r cur).1 = true) :
    0 ≤ (consumeLineNumber r cur).2.1 ∧ (consumeLineNumber r cur).2.1 ≤ cap := by
  sorry

/-- a unified range line that parses has all four numbers within [0, cap] -/
theorem unified_range_bounded (h0 : Hunk) (l : Bytes) (h : (parseUnifiedRange h0 l).1 = true) :
    let r := (parseUnifiedRange h0 l).2
    0 ≤ r.old.start ∧ r.old.start ≤ cap ∧ 0 ≤ r.old.count ∧ r.old.count ≤ cap ∧
    0 ≤ r.new.start ∧ r.new.start ≤ cap ∧ 0 ≤ r.new.count ∧ r.new.count ≤ cap := by
  sorry

/-- a normal range line that parses: starts within [0, cap], counts (computed as end - start + 1) within [-cap, cap + 1] -/
theorem normal_range_bounded (h0 : Hunk) (l : Bytes) (h : (parseNormalRange h0 l).1 = true) :
    let r := (parseNormalRange h0 l).2
    0 ≤ r.old.start ∧ r.old.start ≤ cap ∧ 0 ≤ r.old.count ∧ r.old.count ≤ cap + 1 ∧
    0 ≤ r.new.start ∧ r.new.start ≤ cap ∧ -cap - 1 ≤ r.new.count ∧ r.new.count ≤ cap + 1 := by
  sorry

/-- a context range that parses: both numbers within [0, cap] -/
theorem context_range_bounded (s e : Int) (t : Bytes) (h : (parseContextRange s e t).1 = true) :
    0 ≤ (parseContextRange s e t).2.1 ∧ (parseContextRange s e t).2.1 ≤ cap ∧
    0 ≤ (parseContextRange s e t).2.2 ∧ (parseContextRange s e t).2.2 ≤ cap := by
  sorry

/-- `expected_line_number` and the first guess `expected - 1 + offset` do not overflow for bounded inputs -/
theorem guess_in_range (h : Hunk) (offset : Int) (hs : 0 ≤ h.old.start ∧ h.old.start ≤ cap)
    (ho : -(2 * cap + 2) ≤ offset ∧ offset ≤ 2 * cap + 2) :
    inI64 (expectedLine h) ∧ inI64 (expectedLine h - 1) ∧ inI64 (expectedLine h - 1 + offset) := by
  sorry

/-- whatever `locate_hunk` returns lies inside the file, and its offset is `line - guess` (no other arithmetic) -/
theorem locate_in_file (file : List Line) (h : Hunk) (iw : Bool) (offset maxFuzz : Int) (minLine : Nat) (loc : Location)
    (hloc : locateHunk file h iw offset maxFuzz minLine = some loc) :
    0 ≤ loc.line ∧ loc.line ≤ (file.length : Int) ∧ 0 ≤ loc.fuzz ∧
    loc.offset = loc.line - (expectedLine h - 1 + offset) := by
  sorry

/-- invariant of the hunk loop: the accumulated offset error after applying a hunk is `line - expected + 1`, hence bounded by the
    stated line and the file length whatever happened before — no accumulation over hunks -/
theorem offErr_after_apply (file : List Line) (o : ApplyOpts) (p : Patch) (s s' : AState) (num : Nat) (h : Hunk) (loc : Location)
    (hloc : locateHunk file h o.ignoreWhitespace s.offErr o.maxFuzz s.cursor = some loc) (hskip : s.skip = false)
    (hf : finishHunk file o p s num h (some loc) = .ok s') :
    s'.offErr = loc.line - expectedLine h + 1 := by
  sorry

/-- the shift of reject line numbers is the net growth of the hunks applied so far: for well-formed hunks it is bounded by the number of
    hunk lines seen, not by any number written in the patch -/
theorem offNew_step (file : List Line) (o : ApplyOpts) (p : Patch) (s s' : AState) (num : Nat) (h : Hunk) (loc : Option Location)
    (hw : h.WF) (hf : finishHunk file o p s num h loc = .ok s') :
    (s'.offNew - s.offNew).natAbs ≤ h.lines.length := by
  sorry

/-- `lines.at(i)` never throws for well-formed hunks: `apply_patch` has no `out_of_range` outcome -/
theorem no_out_of_range (file : List Line) (p0 : Patch) (o : ApplyOpts) (tty : Option (List Bool))
    (hwf : ∀ h ∈ p0.hunks, h.WF) (hD : o.define = []) :
    applyPatch file p0 o tty ≠ .error .outOfRange := by
  sorry

/-- every exception reaches `main`'s handler: whatever is thrown anywhere, the exit status is 2 (and never anything but 0, 1, 2) -/
theorem exit_status (o : Options) (s0 : DState) :
    (runPatch o s0).1 = 0 ∨ (runPatch o s0).1 = 1 ∨ (runPatch o s0).1 = 2 := by
  sorry

end PatchModel.C07
