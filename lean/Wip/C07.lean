import PatchModel.Props.C07
