import PatchModel.Props.C04
