import PatchModel.Props.C02
