/-
  C02 / C03 at the level of apply_patch (statements; proofs in progress)
-/
import PatchModel.Spec.Script
namespace PatchModel.C02
open PatchModel

/-- index of the original line an output item was copied from -/
def fileIdx : Out → Option Nat
  | .fromFile i _ => some i
  | _ => none

/-- original line `i` lies under a '-' line of one of the placements -/
def deletedB (pls : List (Hunk × Nat)) (i : Nat) : Bool :=
  pls.any fun (h, p) => decide (p ≤ i) &&
    (match (h.lines.filter (·.op != PLUS))[i - p]? with
     | some pl => pl.op == MINUS
     | none => false)

/-- every item tagged "original line i" really carries the bytes and terminator of line i -/
theorem spliceAt_fromFile (file : List Line) (c : Nat) (pls : List (Hunk × Nat)) :
    ∀ o ∈ spliceAt file c pls, ∀ i l, o = Out.fromFile i l → file[i]? = some l := by
  sorry

/-- original lines appear in order, each at most once -/
theorem spliceAt_sorted (file : List Line) (c : Nat) (pls : List (Hunk × Nat))
    (h : increasingB file c pls = true) :
    ((spliceAt file c pls).filterMap fileIdx).Pairwise (· < ·) := by
  sorry

/-- an original line at or after the cursor is in the output iff no applied hunk deletes it -/
theorem spliceAt_complete (file : List Line) (c : Nat) (pls : List (Hunk × Nat))
    (h : increasingB file c pls = true)
    (hops : ∀ hp ∈ pls, ∀ pl ∈ hp.1.lines, pl.op = SP ∨ pl.op = PLUS ∨ pl.op = MINUS) :
    ∀ i, c ≤ i → i < file.length →
      (i ∈ (spliceAt file c pls).filterMap fileIdx ↔ deletedB pls i = false) := by
  sorry

/-- **C02 at the level of apply_patch**: for every file, every sequence of well-formed hunks (any line numbers, any
    order, overlapping), every -F, with and without -l, -R, -N, -t, -f and every tty answer stream: if
    `apply_patch` returns, its output is the splice of the file with a list of placements that are in increasing
    order, non-overlapping, inside the file, and each admissible. -/
theorem C02_apply (file : List Line) (p0 : Patch) (o : ApplyOpts) (tty : Option (List Bool)) (r : ApplyResult)
    (hwf : ∀ h ∈ p0.hunks, h.WF) (hD : o.define = [])
    (hr : applyPatch file p0 o tty = .ok r) :
    ∃ pls : List (Hunk × Nat),
      r.out = spliceAt file 0 pls ∧ increasingB file 0 pls = true ∧
      pls.length = r.applied.length ∧
      (∀ hp ∈ pls, hp.1 ∈ r.patch.hunks ∧ hp.1.WF) ∧
      (∀ hp ∈ pls, hp.1.old.count ≠ 0 →
        ∃ f : Nat, admissibleB file hp.1 o.ignoreWhitespace o.maxFuzz hp.2 f = true) := by
  sorry

end PatchModel.C02

namespace PatchModel.C03
open PatchModel

/-- lifted to the hunk loop: outside the "skip remaining hunks" state, a well-formed hunk that has an admissible
    placement in the not yet consumed part of the file is applied (appended to `applied`), never rejected -/
theorem C03_step (file : List Line) (o : ApplyOpts) (p : Patch) (s : AState) (num : Nat) (h : Hunk) (q f : Nat)
    (hwf : h.WF) (hc : h.old.count ≠ 0) (hskip : s.skip = false) (hD : o.define = [])
    (hcur : s.cursor ≤ q) (hadm : admissibleB file h o.ignoreWhitespace o.maxFuzz q f = true) :
    ∃ s' loc, locateHunk file h o.ignoreWhitespace s.offErr o.maxFuzz s.cursor = some loc ∧
      finishHunk file o p s num h (some loc) = .ok s' ∧
      s'.applied = s.applied ++ [(num, loc)] ∧ s'.rejected = s.rejected ∧ loc.fuzz ≤ (f : Int) := by
  sorry

end PatchModel.C03
