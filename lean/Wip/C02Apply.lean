import PatchModel.Props.C02Apply
import PatchModel.Props.C03Step
