/-
  C01 (apply_patch level) — applying a diff reproduces the new file exactly.
-/
import PatchModel.Spec.Script
import PatchModel.Lemmas.Valid
import Wip.C03
namespace PatchModel.C01
open PatchModel PatchModel.Script

/-! ### helpers: the locator and the hunk loop on a valid script -/

theorem lines_ne_nil_of_count {h : Hunk} (hw : h.WF) (hc : h.old.count ≠ 0) : h.lines ≠ [] := by
  intro e
  apply hc
  rw [hw.2.1, e]; rfl

/-- under the head conditions of `Valid` the locator returns the stated place, fuzz 0, offset 0 -/
theorem locate_inplace (file : List Line) (h : Hunk) (iw : Bool) (maxFuzz : Int) (c p : Nat)
    (hw : h.WF) (hp : h.pos0 = (p : Int)) (hcp : c ≤ p)
    (hold : (file.drop p).take (oldOf h.lines).length = oldOf h.lines)
    (hfit : p + (oldOf h.lines).length ≤ file.length)
    (hex : ¬ (h.old.count = 0 ∧ h.old.start = 0 ∧ file ≠ []))
    (hF : 0 ≤ maxFuzz) :
    locateHunk file h iw 0 maxFuzz c = some ⟨p, 0, 0⟩ := by
  have hg : expectedLine h - 1 + 0 = (p : Int) := by
    unfold Hunk.pos0 at hp; omega
  by_cases hc : h.old.count = 0
  · exact C03.locate_insertion_exact file h iw 0 maxFuzz c p hc hg hcp (by omega)
      (fun hh => hex ⟨hc, hh.1, hh.2⟩)
  · exact C03.locate_exact file h iw 0 maxFuzz c p hw hc hg hcp
      (admissible_of_inplace file h iw maxFuzz p hF (lines_ne_nil_of_count hw hc) hold hfit)

/-- the placements a valid script states, numbered from `num` -/
def statedFrom (num : Nat) (hs : List Hunk) : List (Nat × Location) :=
  (hs.zipIdx num).map fun (h, i) => (i, ⟨h.pos0, 0, 0⟩)

/-- the hunk loop on a valid script: every hunk is written at its stated place -/
theorem applyRest_valid (file : List Line) (o : ApplyOpts) (pt : Patch)
    (hD : o.define = []) (hF : 0 ≤ o.maxFuzz) :
    ∀ (c : Nat) (d : Int) (hs : List Hunk), Valid file c d hs →
    ∀ (s : AState) (num : Nat), s.cursor = c → s.offErr = 0 → s.skip = false →
    ∃ s', applyRest file o pt s num hs = .ok s' ∧
      (s'.out ++ copyRange file s'.cursor (file.length - s'.cursor)).map Out.line =
        s.out.map Out.line ++ splice file c hs ∧
      s'.rejected = s.rejected ∧ s'.rejBytes = s.rejBytes ∧ s'.perfect = s.perfect ∧ s'.skip = false ∧
      s'.applied = s.applied ++ statedFrom num hs ∧
      (o.verbose = false → s'.msgs = s.msgs) ∧ s.msgs <+: s'.msgs ∧ s'.tty = s.tty := by
  intro c d hs hv
  induction hv with
  | nil c d hc =>
    intro s num hcur _ hsk
    refine ⟨s, rfl, ?_, rfl, rfl, rfl, hsk, by simp [statedFrom], fun _ => rfl, List.prefix_refl _, rfl⟩
    rw [List.map_append, copyRange_map_line, hcur, splice]
    rw [List.take_of_length_le (by simp)]
  | cons c d h hs p hw hp hcp hold hfit hnew hex hv' ih =>
    intro s num hcur hoff hsk
    have hloc := locate_inplace file h o.ignoreWhitespace o.maxFuzz c p hw hp hcp hold hfit hex hF
    obtain ⟨s1, e1, a1, a2, a3, a4, a5, a6, a7, a8, a9, a10, a11, _⟩ :=
      finishHunk_inplace file o pt s num h p hD hsk hw.1 hfit
    obtain ⟨s2, e2, b1, b2, b3, b4, b5, b6, b7, b8, b9⟩ := ih s1 (num + 1) a2 (a3.trans hoff) a4
    refine ⟨s2, ?_, ?_, b2.trans a7, b3.trans a6, b4.trans a5, b5, ?_,
      fun hv => (b7 hv).trans (a9 hv), a10.trans b8, b9.trans a11⟩
    · simp only [applyRest, hoff, hcur, hloc, e1, e2]
    · have hp0 : h.pos0.toNat = p := by rw [hp]; simp
      rw [b1, a1, splice, hp0, hcur]
      simp only [List.map_append, copyRange_map_line,
        hunkOutput_map_line file h.lines p hw.1 hold hfit, List.append_assoc]
    · rw [b6, a8]
      simp [statedFrom, List.zipIdx_cons, hp]


/-- the placements a valid script states: hunk i at its stated line, fuzz 0, offset 0 -/
def statedPlacements (hs : List Hunk) : List (Nat × Location) :=
  hs.zipIdx.map fun (h, i) => (i, ⟨h.pos0, 0, 0⟩)

/-- the `finish` closure of `applyPatch` -/
def finishRes (file : List Line) (p : Patch) (s : AState) : ApplyResult :=
  { out := s.out ++ copyRange file s.cursor (file.length - s.cursor), rejBytes := s.rejBytes,
    failed := s.rejected.length, skipped := s.skip, perfect := s.perfect, rejected := s.rejected,
    applied := s.applied, msgs := s.msgs, patch := p, tty := s.tty }

/-- the first iteration (done separately by `apply_patch`) followed by the loop is the loop from hunk 0 -/
theorem first_then_rest {α : Type} (file : List Line) (o : ApplyOpts) (pt : Patch) (s : AState) (h0 : Hunk)
    (rest : List Hunk) (F : AState → α) :
    (match finishHunk file o pt s 0 h0 (locateHunk file h0 o.ignoreWhitespace s.offErr o.maxFuzz s.cursor) with
      | .error e => (Except.error e : Except Exn α)
      | .ok s2 => match applyRest file o pt s2 1 rest with
        | .error e => .error e
        | .ok s3 => .ok (F s3)) =
    (match applyRest file o pt s 0 (h0 :: rest) with
      | .error e => .error e
      | .ok s3 => .ok (F s3)) := by
  simp only [applyRest]
  cases finishHunk file o pt s 0 h0 _ <;> rfl

/-- `apply_patch` on a valid script (with or without -R: `hs` is the script after the optional reversal) -/
theorem applyPatch_valid (file : List Line) (hs : List Hunk) (p0 : Patch) (o : ApplyOpts) (tty : Option (List Bool))
    (hv : Valid file 0 0 hs) (hp : (if o.reverse then reversePatch p0 else p0).hunks = hs)
    (hD : o.define = []) (hF : 0 ≤ o.maxFuzz) :
    ∃ r, applyPatch file p0 o tty = .ok r ∧
      r.out.map Out.line = splice file 0 hs ∧
      r.rejected = [] ∧ r.failed = 0 ∧ r.rejBytes = [] ∧ r.perfect = true ∧ r.skipped = false ∧
      r.applied = statedPlacements hs ∧
      (o.verbose = false → r.msgs = []) ∧ r.tty = tty ∧
      r.patch = (if o.reverse then reversePatch p0 else p0) := by
  unfold applyPatch
  simp only []
  generalize (if o.reverse = true then reversePatch p0 else p0) = p at hp ⊢
  cases hs with
  | nil =>
    rw [hp]
    refine ⟨_, rfl, ?_⟩
    simp [copyRange_map_line, splice, statedPlacements]
  | cons h0 rest =>
    rw [hp]
    simp only []
    cases hv with
    | cons _ _ _ _ q hw hq hcq hold hfit hnew hex hv' =>
    have hloc := locate_inplace file h0 o.ignoreWhitespace o.maxFuzz 0 q hw hq hcq hold hfit hex hF
    have hsc : shouldCheckReversed (some ⟨q, 0, 0⟩) o = false := by simp [shouldCheckReversed]
    rw [hloc, hsc]
    simp only [Bool.false_eq_true, if_false]
    obtain ⟨s3, e, b1, b2, b3, b4, b5, b6, b7, b8, b9⟩ :=
      applyRest_valid file o p hD hF 0 0 (h0 :: rest)
        (Valid.cons 0 0 h0 rest q hw hq hcq hold hfit hnew hex hv') ({ tty := tty } : AState) 0 rfl rfl rfl
    have := first_then_rest file o p ({ tty := tty } : AState) h0 rest
      (finishRes file p)
    simp only [hloc] at this
    refine ⟨finishRes file p s3, ?_, ?_, b2, ?_, b3, b4, b5, ?_, ?_, b9, rfl⟩
    · refine Eq.trans this ?_
      rw [e]
    · simpa [finishRes] using b1
    · simp [finishRes, b2]
    · simpa [finishRes, statedFrom, statedPlacements] using b6
    · intro hvb; exact b7 hvb

/-- **C01 core**: for every file and every valid script (a diff of that file: any number of hunks, any context
    width, missing final newlines, repeated lines elsewhere in the file), with any `-F ≥ 0`, with or without `-l`,
    `-N`, `-t`, `-f`, any newline mode, with or without a tty: `apply_patch` returns, its output is exactly the
    intended new file, every hunk lands at its stated line with fuzz 0 and offset 0 (even when the same text also
    occurs elsewhere), nothing is rejected, no question is asked, and nothing is printed unless --verbose. -/
theorem C01_core (file : List Line) (hs : List Hunk) (p0 : Patch) (o : ApplyOpts) (tty : Option (List Bool))
    (hv : Valid file 0 0 hs) (hp : p0.hunks = hs)
    (hD : o.define = []) (hR : o.reverse = false) (hF : 0 ≤ o.maxFuzz) :
    ∃ r, applyPatch file p0 o tty = .ok r ∧
      r.out.map Out.line = splice file 0 hs ∧
      r.rejected = [] ∧ r.failed = 0 ∧ r.rejBytes = [] ∧ r.perfect = true ∧ r.skipped = false ∧
      r.applied = statedPlacements hs ∧
      (o.verbose = false → r.msgs = []) ∧ r.tty = tty := by
  obtain ⟨r, h1, h2, h3, h4, h5, h6, h7, h8, h9, h10, _⟩ :=
    applyPatch_valid file hs p0 o tty hv (by simp [hR, hp]) hD hF
  exact ⟨r, h1, h2, h3, h4, h5, h6, h7, h8, h9, h10⟩

/-- bytes level: the output file is the rendering of the intended new file -/
theorem C01_bytes (file : List Line) (hs : List Hunk) (p0 : Patch) (o : ApplyOpts) (tty : Option (List Bool))
    (hv : Valid file 0 0 hs) (hp : p0.hunks = hs)
    (hD : o.define = []) (hR : o.reverse = false) (hF : 0 ≤ o.maxFuzz) :
    ∃ r, applyPatch file p0 o tty = .ok r ∧
      render o.newlineOutput r.out = renderLines o.newlineOutput (splice file 0 hs) := by
  obtain ⟨r, h1, h2, _⟩ := C01_core file hs p0 o tty hv hp hD hR hF
  exact ⟨r, h1, by rw [render, h2]⟩

/-! ### non-vacuity: a valid script exists for every pair of files -/

def commonPrefixLen : List Line → List Line → Nat
  | a :: as, b :: bs => if a = b then commonPrefixLen as bs + 1 else 0
  | _, _ => 0

/-- one hunk: common prefix and suffix trimmed, no context — except that a pure insertion at the very top of a
    non-empty file carries the first old line as context (the zero-context form of it is known finding D2) -/
def diffTrim (a b : List Line) : List Hunk :=
  if a = b then [] else
  let pre := commonPrefixLen a b
  let a' := a.drop pre
  let b' := b.drop pre
  let suf := commonPrefixLen a'.reverse b'.reverse
  let dels := a'.take (a'.length - suf)
  let adds := b'.take (b'.length - suf)
  if pre = 0 ∧ dels = [] ∧ a ≠ [] then
    -- insertion at the top of a non-empty file: keep one line of trailing context
    match a with
    | first :: _ =>
      [{ old := ⟨1, 1⟩, new := ⟨1, adds.length + 1⟩,
         lines := adds.map (⟨PLUS, ·⟩) ++ [⟨SP, first⟩] }]
    | [] => []
  else
    [{ old := ⟨if dels = [] then pre else pre + 1, dels.length⟩,
       new := ⟨if adds = [] then pre else pre + 1, adds.length⟩,
       lines := dels.map (⟨MINUS, ·⟩) ++ adds.map (⟨PLUS, ·⟩) }]

theorem diffTrim_valid (a b : List Line) : Valid a 0 0 (diffTrim a b) ∧ splice a 0 (diffTrim a b) = b := by
  sorry

end PatchModel.C01
