import PatchModel.Props.C01
