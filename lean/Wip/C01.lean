/-
  C01 (apply_patch level) — applying a diff reproduces the new file exactly.
-/
import PatchModel.Spec.Script
namespace PatchModel.C01
open PatchModel

/-- the placements a valid script states: hunk i at its stated line, fuzz 0, offset 0 -/
def statedPlacements (hs : List Hunk) : List (Nat × Location) :=
  hs.zipIdx.map fun (h, i) => (i, ⟨h.pos0, 0, 0⟩)

/-- **C01 core**: for every file and every valid script (a diff of that file: any number of hunks, any context
    width, missing final newlines, repeated lines elsewhere in the file), with any `-F ≥ 0`, with or without `-l`,
    `-N`, `-t`, `-f`, any newline mode, with or without a tty: `apply_patch` returns, its output is exactly the
    intended new file, every hunk lands at its stated line with fuzz 0 and offset 0 (even when the same text also
    occurs elsewhere), nothing is rejected, no question is asked, and nothing is printed unless --verbose. -/
theorem C01_core (file : List Line) (hs : List Hunk) (p0 : Patch) (o : ApplyOpts) (tty : Option (List Bool))
    (hv : Valid file 0 0 hs) (hp : p0.hunks = hs)
    (hD : o.define = []) (hR : o.reverse = false) (hF : 0 ≤ o.maxFuzz) :
    ∃ r, applyPatch file p0 o tty = .ok r ∧
      r.out.map Out.line = splice file 0 hs ∧
      r.rejected = [] ∧ r.failed = 0 ∧ r.rejBytes = [] ∧ r.perfect = true ∧ r.skipped = false ∧
      r.applied = statedPlacements hs ∧
      (o.verbose = false → r.msgs = []) ∧ r.tty = tty := by
  sorry

/-- bytes level: the output file is the rendering of the intended new file -/
theorem C01_bytes (file : List Line) (hs : List Hunk) (p0 : Patch) (o : ApplyOpts) (tty : Option (List Bool))
    (hv : Valid file 0 0 hs) (hp : p0.hunks = hs)
    (hD : o.define = []) (hR : o.reverse = false) (hF : 0 ≤ o.maxFuzz) :
    ∃ r, applyPatch file p0 o tty = .ok r ∧
      render o.newlineOutput r.out = renderLines o.newlineOutput (splice file 0 hs) := by
  sorry

/-! ### non-vacuity: a valid script exists for every pair of files -/

def commonPrefixLen : List Line → List Line → Nat
  | a :: as, b :: bs => if a = b then commonPrefixLen as bs + 1 else 0
  | _, _ => 0

/-- one hunk: common prefix and suffix trimmed, no context — except that a pure insertion at the very top of a
    non-empty file carries the first old line as context (the zero-context form of it is known finding D2) -/
def diffTrim (a b : List Line) : List Hunk :=
  if a = b then [] else
  let pre := commonPrefixLen a b
  let a' := a.drop pre
  let b' := b.drop pre
  let suf := commonPrefixLen a'.reverse b'.reverse
  let dels := a'.take (a'.length - suf)
  let adds := b'.take (b'.length - suf)
  if pre = 0 ∧ dels = [] ∧ a ≠ [] then
    -- insertion at the top of a non-empty file: keep one line of trailing context
    match a with
    | first :: _ =>
      [{ old := ⟨1, 1⟩, new := ⟨1, adds.length + 1⟩,
         lines := adds.map (⟨PLUS, ·⟩) ++ [⟨SP, first⟩] }]
    | [] => []
  else
    [{ old := ⟨if dels = [] then pre else pre + 1, dels.length⟩,
       new := ⟨if adds = [] then pre else pre + 1, adds.length⟩,
       lines := dels.map (⟨MINUS, ·⟩) ++ adds.map (⟨PLUS, ·⟩) }]

theorem diffTrim_valid (a b : List Line) : Valid a 0 0 (diffTrim a b) ∧ splice a 0 (diffTrim a b) = b := by
  sorry

end PatchModel.C01
