// In-process correspondence harness: answers the same request lines as the Lean model driver
// (lean/Main.lean) by calling the real functions of libpatch built from /repo's working tree.
// Protocol: see lean/PatchModel/Proto.lean.
#include <patch/applier.h>
#include <patch/cmdline.h>
#include <patch/file.h>
#include <patch/formatter.h>
#include <patch/hunk.h>
#include <patch/locator.h>
#include <patch/options.h>
#include <patch/parser.h>
#include <patch/patch.h>
#include <patch/system.h>

#include <cstdlib>
#include <cstring>
#include <iostream>
#include <regex>
#include <sstream>
#include <stdexcept>
#include <string>
#include <system_error>
#include <typeinfo>
#include <vector>

using namespace Patch;

struct Toks {
    std::vector<std::string> t;
    size_t i = 0;
    const std::string& next()
    {
        if (i >= t.size())
            throw std::string("unexpected end of request");
        return t[i++];
    }
};

static int hexval(char c)
{
    if (c >= '0' && c <= '9') return c - '0';
    if (c >= 'a' && c <= 'f') return c - 'a' + 10;
    throw std::string("bad hex");
}

static std::string p_bytes(Toks& k)
{
    const std::string& s = k.next();
    if (s.empty() || s[0] != 'x' || (s.size() % 2) != 1) throw std::string("expected bytes, got " + s);
    std::string out;
    for (size_t i = 1; i + 1 < s.size(); i += 2)
        out.push_back(static_cast<char>(hexval(s[i]) * 16 + hexval(s[i + 1])));
    return out;
}

static int64_t p_int(Toks& k) { return std::stoll(k.next()); }
static bool p_bool(Toks& k) { return p_int(k) != 0; }

static NewLine p_nl(Toks& k)
{
    const std::string& s = k.next();
    if (s == "L") return NewLine::LF;
    if (s == "C") return NewLine::CRLF;
    if (s == "N") return NewLine::None;
    throw std::string("bad newline kind " + s);
}

static Line p_line(Toks& k)
{
    auto c = p_bytes(k);
    auto n = p_nl(k);
    return Line(c, n);
}

static std::vector<Line> p_lines(Toks& k)
{
    std::vector<Line> v;
    auto n = p_int(k);
    for (int64_t i = 0; i < n; ++i) v.push_back(p_line(k));
    return v;
}

static Hunk p_hunk(Toks& k)
{
    Hunk h;
    h.old_file_range.start_line = p_int(k);
    h.old_file_range.number_of_lines = p_int(k);
    h.new_file_range.start_line = p_int(k);
    h.new_file_range.number_of_lines = p_int(k);
    auto n = p_int(k);
    for (int64_t i = 0; i < n; ++i) {
        char op = static_cast<char>(p_int(k));
        auto l = p_line(k);
        h.lines.emplace_back(op, l);
    }
    return h;
}

static Format p_format(Toks& k)
{
    const std::string& s = k.next();
    if (s == "context") return Format::Context;
    if (s == "unified") return Format::Unified;
    if (s == "git") return Format::Git;
    if (s == "ed") return Format::Ed;
    if (s == "normal") return Format::Normal;
    if (s == "unknown") return Format::Unknown;
    throw std::string("bad format " + s);
}

static Operation p_operation(Toks& k)
{
    const std::string& s = k.next();
    if (s == "change") return Operation::Change;
    if (s == "rename") return Operation::Rename;
    if (s == "copy") return Operation::Copy;
    if (s == "delete") return Operation::Delete;
    if (s == "add") return Operation::Add;
    if (s == "binary") return Operation::Binary;
    throw std::string("bad operation " + s);
}

static Patch::Patch p_patch(Toks& k)
{
    Patch::Patch p;
    p.format = p_format(k);
    p.operation = p_operation(k);
    p.index_file_path = p_bytes(k);
    p.prerequisite = p_bytes(k);
    p.old_file_path = p_bytes(k);
    p.new_file_path = p_bytes(k);
    p.old_file_time = p_bytes(k);
    p.new_file_time = p_bytes(k);
    p.old_file_mode = static_cast<uint16_t>(p_int(k));
    p.new_file_mode = static_cast<uint16_t>(p_int(k));
    auto n = p_int(k);
    for (int64_t i = 0; i < n; ++i) p.hunks.push_back(p_hunk(k));
    return p;
}

static Options p_apply_opts(Toks& k)
{
    Options o;
    o.reverse_patch = p_bool(k);
    o.ignore_reversed = p_bool(k);
    o.batch = p_bool(k);
    o.force = p_bool(k);
    o.ignore_whitespace = p_bool(k);
    o.max_fuzz = static_cast<int>(p_int(k));
    o.define_macro = p_bytes(k);
    const std::string& nl = k.next();
    if (nl == "native") o.newline_output = Options::NewlineOutput::Native;
    else if (nl == "lf") o.newline_output = Options::NewlineOutput::LF;
    else if (nl == "crlf") o.newline_output = Options::NewlineOutput::CRLF;
    else if (nl == "keep") o.newline_output = Options::NewlineOutput::Keep;
    else throw std::string("bad newline-output");
    const std::string& rf = k.next();
    if (rf == "context") o.reject_format = Options::RejectFormat::Context;
    else if (rf == "unified") o.reject_format = Options::RejectFormat::Unified;
    else if (rf == "default") o.reject_format = Options::RejectFormat::Default;
    else throw std::string("bad reject format");
    o.verbose = p_bool(k);
    return o;
}

static std::string hex(const std::string& s)
{
    static const char* d = "0123456789abcdef";
    std::string out = "x";
    for (unsigned char c : s) {
        out.push_back(d[c >> 4]);
        out.push_back(d[c & 15]);
    }
    return out;
}

static const char* show_nl(NewLine n) { return n == NewLine::LF ? "L" : n == NewLine::CRLF ? "C" : "N"; }

static std::string show_hunk(const Hunk& h)
{
    std::ostringstream ss;
    ss << h.old_file_range.start_line << ' ' << h.old_file_range.number_of_lines << ' '
       << h.new_file_range.start_line << ' ' << h.new_file_range.number_of_lines << ' ' << h.lines.size();
    for (const auto& l : h.lines)
        ss << ' ' << static_cast<int>(static_cast<unsigned char>(l.operation)) << ' ' << hex(l.line.content) << ' ' << show_nl(l.line.newline);
    return ss.str();
}

static const char* show_operation(Operation o)
{
    switch (o) {
    case Operation::Change: return "change";
    case Operation::Rename: return "rename";
    case Operation::Copy: return "copy";
    case Operation::Delete: return "delete";
    case Operation::Add: return "add";
    case Operation::Binary: return "binary";
    }
    return "?";
}

static const char* show_format(Format f)
{
    switch (f) {
    case Format::Context: return "context";
    case Format::Unified: return "unified";
    case Format::Git: return "git";
    case Format::Ed: return "ed";
    case Format::Normal: return "normal";
    case Format::Unknown: return "unknown";
    }
    return "?";
}

static std::string show_patch(const Patch::Patch& p)
{
    std::ostringstream ss;
    ss << show_format(p.format) << ' ' << show_operation(p.operation) << ' ' << hex(p.index_file_path) << ' ' << hex(p.prerequisite)
       << ' ' << hex(p.old_file_path) << ' ' << hex(p.new_file_path) << ' ' << hex(p.old_file_time) << ' ' << hex(p.new_file_time)
       << ' ' << p.old_file_mode << ' ' << p.new_file_mode << ' ' << p.hunks.size();
    for (const auto& h : p.hunks)
        ss << ' ' << show_hunk(h);
    return ss.str();
}

static std::string exn_kind(const std::exception& e)
{
    if (dynamic_cast<const std::bad_alloc*>(&e)) return "bad_alloc";
    if (dynamic_cast<const std::system_error*>(&e)) return "system_error";
    if (dynamic_cast<const cmdline_parse_error*>(&e)) return "cmdline_error";
    if (std::strstr(typeid(e).name(), "parser_error")) return "parser_error";
    if (dynamic_cast<const std::out_of_range*>(&e)) return "out_of_range";
    if (dynamic_cast<const std::invalid_argument*>(&e)) return "invalid_argument";
    if (dynamic_cast<const std::runtime_error*>(&e)) return "runtime_error";
    if (dynamic_cast<const std::logic_error*>(&e)) return "logic_error";
    return "exception";
}

// Turn what apply_patch printed into the model's structured events.
static std::string canon_msgs(const std::string& text)
{
    std::vector<std::string> ev;
    static const std::regex hunk_re(R"(^Hunk #(\d+) (succeeded|FAILED|skipped) at (-?\d+)(?: with fuzz (-?\d+))?(?: \(offset (-?\d+) lines?\))?\.$)");
    std::istringstream in(text);
    std::string line;
    while (std::getline(in, line)) {
        std::string rest = line;
        const std::string rev = "Reversed (or previously applied) patch detected!  ";
        const std::string unrev = "Unreversed patch detected!  ";
        if (rest.compare(0, rev.size(), rev) == 0) {
            ev.push_back("reversed-detected");
            rest = rest.substr(rev.size());
        } else if (rest.compare(0, unrev.size(), unrev) == 0) {
            ev.push_back("unreversed-detected");
            rest = rest.substr(unrev.size());
        }
        const std::string q1 = "Assume -R? [n] ";
        const std::string q2 = "Apply anyway? [n] ";
        if (rest.compare(0, q1.size(), q1) == 0) {
            ev.push_back("asked:Assume_-R?");
            rest = rest.substr(q1.size());
        }
        if (rest.compare(0, q2.size(), q2) == 0) {
            ev.push_back("asked:Apply_anyway?");
            rest = rest.substr(q2.size());
        }
        if (rest.empty())
            continue;
        std::smatch m;
        if (rest == "Assuming -R.") ev.push_back("assuming-R");
        else if (rest == "Skipping patch.") ev.push_back("skipping-patch");
        else if (std::regex_match(rest, m, hunk_re)) {
            std::string fuzz = m[4].matched ? m[4].str() : "0";
            std::string off = m[5].matched ? m[5].str() : "0";
            ev.push_back("hunk:" + m[1].str() + ":" + m[2].str() + ":" + m[3].str() + ":" + fuzz + ":" + off);
        } else
            ev.push_back("other:" + hex(rest));
    }
    std::string out;
    for (size_t i = 0; i < ev.size(); ++i) {
        if (i) out += ",";
        out += ev[i];
    }
    return out;
}

static std::string respond(Toks& k)
{
    const std::string cmd = k.next();
    if (cmd == "ws") {
        auto a = p_bytes(k);
        auto b = p_bytes(k);
        return matches_ignoring_whitespace(a, b) ? "1" : "0";
    }
    if (cmd == "match") {
        auto a = p_line(k);
        auto b = p_line(k);
        bool iw = p_bool(k);
        return matches(a, b, iw) ? "1" : "0";
    }
    if (cmd == "locate") {
        auto file = p_lines(k);
        auto h = p_hunk(k);
        bool iw = p_bool(k);
        auto off = p_int(k);
        auto mf = p_int(k);
        auto ml = p_int(k);
        auto loc = locate_hunk(file, h, iw, off, mf, ml);
        if (!loc.is_found())
            return "none";
        std::ostringstream ss;
        ss << "loc " << loc.line_number << ' ' << loc.fuzz << ' ' << loc.offset;
        return ss.str();
    }
    if (cmd == "fmtu" || cmd == "fmtc") {
        auto h = p_hunk(k);
        File f = File::create_temporary();
        if (cmd == "fmtu")
            write_hunk_as_unified(h, f);
        else
            write_hunk_as_context(h, f);
        return "ok " + hex(f.read_all_as_string());
    }
    if (cmd == "reverse") {
        auto h = p_hunk(k);
        reverse(h);
        return "ok " + show_hunk(h);
    }
    if (cmd == "apply") {
        auto file = p_lines(k);
        auto patch = p_patch(k);
        auto opts = p_apply_opts(k);
        File out = File::create_temporary();
        File rej = File::create_temporary();
        RejectWriter rw(patch, rej, opts.reject_format);
        std::ostringstream msgs;
        Result r = apply_patch(out, rw, file, patch, opts, msgs);
        std::ostringstream ss;
        ss << "ok out=" << hex(out.read_all_as_string()) << " rej=" << hex(rej.read_all_as_string())
           << " failed=" << r.failed_hunks << " skipped=" << (r.was_skipped ? 1 : 0)
           << " perfect=" << (r.all_hunks_applied_perfectly ? 1 : 0)
           << " nhunks=" << patch.hunks.size() << " op=" << show_operation(patch.operation)
           << " msgs=" << canon_msgs(msgs.str());
        return ss.str();
    }
    if (cmd == "cmdline") {
        auto n = p_int(k);
        std::vector<std::string> args;
        args.push_back("patch");
        for (int64_t i = 0; i < n; ++i) args.push_back(p_bytes(k));
        bool posixly = p_bool(k);
        const std::string& qs = k.next();
        if (posixly) setenv("POSIXLY_CORRECT", "1", 1); else unsetenv("POSIXLY_CORRECT");
        if (qs == "-") unsetenv("QUOTING_STYLE");
        else { Toks k2; k2.t.push_back(qs); auto v = p_bytes(k2); setenv("QUOTING_STYLE", v.c_str(), 1); }
        std::vector<const char*> argv;
        for (const auto& a : args) argv.push_back(a.c_str());
        argv.push_back(nullptr);
        OptionHandler handler;
        CmdLineParser parser(static_cast<int>(args.size()), argv.data());
        parser.parse(handler);
        handler.apply_defaults();
        const Options& o = handler.options();
        auto ob = [](Options::OptionalBool b) { return b == Options::OptionalBool::Unset ? "unset" : b == Options::OptionalBool::Yes ? "yes" : "no"; };
        const char* nl = o.newline_output == Options::NewlineOutput::Native ? "native" : o.newline_output == Options::NewlineOutput::LF ? "lf" : o.newline_output == Options::NewlineOutput::CRLF ? "crlf" : "keep";
        const char* rf = o.reject_format == Options::RejectFormat::Context ? "context" : o.reject_format == Options::RejectFormat::Unified ? "unified" : "default";
        const char* ro = o.read_only_handling == Options::ReadOnlyHandling::Warn ? "warn" : o.read_only_handling == Options::ReadOnlyHandling::Ignore ? "ignore" : "fail";
        const char* qst = o.quoting_style == Options::QuotingStyle::Unset ? "unset" : o.quoting_style == Options::QuotingStyle::Literal ? "literal" : o.quoting_style == Options::QuotingStyle::Shell ? "shell" : o.quoting_style == Options::QuotingStyle::ShellAlways ? "shell-always" : "c";
        std::ostringstream ss;
        ss << "ok b=" << o.save_backup << " c=" << o.interpret_as_context << " d=" << hex(o.patch_directory_path) << " D=" << hex(o.define_macro)
           << " e=" << o.interpret_as_ed << " i=" << hex(o.patch_file_path) << " l=" << o.ignore_whitespace << " n=" << o.interpret_as_normal
           << " N=" << o.ignore_reversed << " o=" << hex(o.out_file_path) << " p=" << o.strip_size << " F=" << o.max_fuzz << " R=" << o.reverse_patch
           << " file=" << hex(o.file_to_patch) << " r=" << hex(o.reject_file_path) << " f=" << o.force << " t=" << o.batch << " h=" << o.show_help
           << " v=" << o.show_version << " u=" << o.interpret_as_unified << " verbose=" << o.verbose << " dry=" << o.dry_run << " posix=" << o.posix
           << " bim=" << ob(o.backup_if_mismatch) << " E=" << ob(o.remove_empty_files) << " nl=" << nl << " rf=" << rf << " ro=" << ro << " qs=" << qst
           << " z=" << hex(o.backup_suffix) << " B=" << hex(o.backup_prefix);
        return ss.str();
    }
    if (cmd == "readlines") {
        auto bytes = p_bytes(k);
        File file = File::create_temporary_with_content(bytes);
        std::ostringstream ss;
        std::vector<Line> lines;
        NewLine newline;
        std::string line;
        while (file.get_line(line, &newline))
            lines.emplace_back(line, newline);
        ss << "ok " << lines.size();
        for (const auto& l : lines)
            ss << ' ' << hex(l.content) << ' ' << show_nl(l.newline);
        return ss.str();
    }
    if (cmd == "strip") {
        auto path = p_bytes(k);
        auto n = p_int(k);
        return "ok " + hex(strip_path(path, static_cast<int>(n)));
    }
    if (cmd == "basename") {
        auto path = p_bytes(k);
        return "ok " + hex(filesystem::basename(path));
    }
    if (cmd == "quoted") {
        auto str = p_bytes(k);
        LineParser lp(str);
        return "ok " + hex(lp.parse_quoted_string());
    }
    if (cmd == "fileline") {
        auto str = p_bytes(k);
        auto n = p_int(k);
        LineParser lp(str);
        std::string path = "\x01unset-path";
        std::string ts = "\x01unset";
        lp.parse_file_line(static_cast<int>(n), path, &ts);
        return "ok " + hex(path) + " " + (ts == "\x01unset" ? std::string("unset") : hex(ts));
    }
    if (cmd == "gitname") {
        auto str = p_bytes(k);
        auto n = p_int(k);
        LineParser lp(str);
        Patch::Patch patch;
        lp.parse_git_header_name(patch, static_cast<int>(n));
        return "ok " + hex(patch.old_file_path);
    }
    if (cmd == "gitext") {
        auto str = p_bytes(k);
        auto n = p_int(k);
        LineParser lp(str);
        Patch::Patch patch;
        bool b = lp.parse_git_extended_info(patch, static_cast<int>(n));
        std::ostringstream ss;
        ss << "ok " << (b ? 1 : 0) << ' ' << show_operation(patch.operation) << ' ' << hex(patch.old_file_path) << ' '
           << hex(patch.new_file_path) << ' ' << patch.old_file_mode << ' ' << patch.new_file_mode;
        return ss.str();
    }
    if (cmd == "urange" || cmd == "nrange") {
        auto str = p_bytes(k);
        Hunk h;
        bool ok = cmd == "urange" ? parse_unified_range(h, str) : parse_normal_range(h, str);
        std::ostringstream ss;
        ss << (ok ? 1 : 0) << ' ' << h.old_file_range.start_line << ' ' << h.old_file_range.number_of_lines << ' '
           << h.new_file_range.start_line << ' ' << h.new_file_range.number_of_lines;
        return ss.str();
    }
    if (cmd == "parse" || cmd == "parseall") {
        auto bytes = p_bytes(k);
        auto format = p_format(k);
        auto strip = static_cast<int>(p_int(k));
        File file = File::create_temporary_with_content(bytes);
        auto remaining = [&file]() {
            size_t n = 0;
            std::string line;
            while (file.get_line(line))
                ++n;
            return n;
        };
        if (cmd == "parse") {
            auto patch = parse_patch(file, format, strip);
            std::ostringstream ss;
            ss << "ok " << show_patch(patch) << " rem=" << remaining();
            return ss.str();
        }
        Parser parser(file);
        std::vector<Patch::Patch> patches;
        int guard = 0;
        while (!parser.is_eof()) {
            if (++guard > 64)
                return "loop";
            Patch::Patch patch(format);
            PatchHeaderInfo info;
            bool body = parser.parse_patch_header(patch, info, strip);
            if (patch.format == Format::Unknown)
                break;
            if (body)
                parser.parse_patch_body(patch);
            patches.push_back(patch);
        }
        std::ostringstream ss;
        ss << "ok " << patches.size();
        for (const auto& p : patches)
            ss << " | " << show_patch(p);
        ss << " rem=" << remaining();
        return ss.str();
    }
    throw std::string("unknown request " + cmd);
}

int main()
{
    std::ios::sync_with_stdio(false);
    std::string line;
    while (std::getline(std::cin, line)) {
        Toks k;
        std::istringstream in(line);
        std::string t;
        while (in >> t) k.t.push_back(t);
        if (k.t.empty())
            continue;
        try {
            std::cout << respond(k) << std::endl;
        } catch (const std::string& s) {
            std::cout << "bad-request " << s << std::endl;
        } catch (const std::exception& e) {
            std::cout << "exn " << exn_kind(e) << std::endl;
        }
    }
    std::cout.flush();
    return 0;
}
