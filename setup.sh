#!/bin/bash
# Run once after a fresh restore (offline): builds the Lean model, theorems and the model driver.
set -e
cd "$(dirname "$0")/lean"
lake build PatchModel modeldriver 2>&1 | tail -3
