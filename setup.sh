#!/bin/bash
# Run once after a fresh restore (offline): regenerates the option tables from /repo, builds the Lean model, every property's
# theorem file and the model driver. Later checks rebuild only what changed.
set -e
cd "$(dirname "$0")"
python3 tools/gen_tables.py
cd lean
mods=$(ls PatchModel/Props/*.lean | sed 's#/#.#g; s#\.lean$##')
lake build PatchModel modeldriver $mods 2>&1 | tail -3
