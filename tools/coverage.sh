#!/bin/bash
# Development aid: which lines of /repo/src does the correspondence machinery execute?  Builds the code under test with gcov
# instrumentation (VERIF_COVERAGE=1), runs every check's quick tier without the Lean part, and writes .work/coverage.txt:
# per-file line coverage and the uncovered lines of the modelled files.  Runs made as another user (uid 65534) cannot write
# their counters and are not counted, so the figures are lower bounds.
cd "$(dirname "$0")/.." || exit 2
export VERIF_COVERAGE=1 VERIF_NOLEAN=skip
rm -rf .work/cut/*-cov .work/covpool
# (C09/C10 kill the process under test or fail its system calls: torn counter files - left out)
for c in $(ls lib/props | grep -o "c[0-9][0-9]" | sort -u | tr a-z A-Z | grep -v "C09\|C10"); do ./check $c --tier quick > .work/cov_$c.log 2>&1; done
d=$(ls -d .work/cut/*-cov | head -1)
chmod -R a+rwX "$d" 2>/dev/null
# merge the per-run counters (sb_patch runs) into the build directory's own (in-process harness runs)
acc=.work/covacc; rm -rf $acc; mkdir -p $acc; cp "$d"/*.gcda $acc/ 2>/dev/null
n=0
for p in .work/covpool/*; do
  src=$(find "$p" -name '*.gcda' -printf '%h\n' | head -1); [ -n "$src" ] || continue
  if gcov-tool merge "$acc" "$src" -o $acc.new >/dev/null 2>&1; then rm -rf $acc; mv $acc.new $acc; n=$((n+1)); else rm -rf $acc.new; fi
done
echo "merged counters of $n sb_patch runs"
cp $acc/*.gcda "$d"/
out=.work/coverage.txt; : > $out
for f in applier cmdline file file_line formatter locator options parser patch system; do
  [ -f /repo/src/$f.cpp ] || continue
  (cd "$d" && gcov -o . /repo/src/$f.cpp > gcov_$f.log 2>&1)
  pct=$(grep -A1 "File '/repo/src/$f.cpp'" "$d/gcov_$f.log" | grep -o "[0-9.]*% of [0-9]*")
  echo "$f.cpp: $pct" >> $out
done
echo >> $out; echo "uncovered lines (##### in gcov) of the modelled files:" >> $out
for f in applier locator parser patch formatter options cmdline; do
  [ -f "$d/$f.cpp.gcov" ] && grep -n "#####:" "$d/$f.cpp.gcov" | sed "s|^|$f.cpp |" | cut -c1-160 >> $out
done
head -12 $out
