#!/usr/bin/env python3
"""Re-validates every kept seeded change against /repo's current HEAD (which moves with every `fix:` commit): in the scratch worktree
/tmp/confirm_wt apply patch.diff, build (no ctest: the suite was run when the change was confirmed), run demo.sh against the unchanged
and the changed binary. Records in seeded/<id>/meta.json:
  revalidated = {head, status}   status: valid (demo 0 -> 1) | neutralised (0 -> 0: the change no longer breaks the property on this tree)
                                         | does-not-apply | build-failed | base-fails (demo != 0 on the unchanged binary)
A change that is no longer `valid` is marked obsolete (with the reason) unless it already is.
Usage: tools/revalidate_seeds.py [seeded-id ...]"""
import json, os, shutil, subprocess, sys
HERE = os.path.dirname(os.path.dirname(os.path.abspath(__file__)))
SEEDED = os.path.join(HERE, "seeded")
WT = "/tmp/confirm_wt"


def sh(cmd, **kw):
    return subprocess.run(cmd, shell=True, capture_output=True, text=True, **kw)


def build():
    b = f"{WT}/_b"
    r = sh(f"cmake -G Ninja -S {WT} -B {b} -DBUILD_TESTING=OFF -DCMAKE_BUILD_TYPE=RelWithDebInfo -DCMAKE_CXX_FLAGS=-Wno-error >/dev/null && cmake --build {b} -j16 --target sb_patch 2>&1 | tail -3")
    return r.returncode == 0 and "error" not in r.stdout.lower(), r.stdout[-300:]


def main():
    ids = sys.argv[1:] or sorted(d for d in os.listdir(SEEDED) if os.path.isdir(os.path.join(SEEDED, d)))
    if not os.path.exists(WT):
        assert sh(f"git -C /repo worktree add -q --detach {WT} HEAD").returncode == 0
    head = sh("git -C /repo rev-parse HEAD").stdout.strip()
    sh(f"git -C {WT} checkout -q --detach {head} && git -C {WT} checkout -- .")
    ok, msg = build()
    assert ok, msg
    base = "/tmp/revalidate_base_sb_patch"
    shutil.copy(f"{WT}/_b/app/sb_patch", base)
    for sid in ids:
        d = os.path.join(SEEDED, sid)
        mp = os.path.join(d, "meta.json")
        meta = json.load(open(mp))
        status = None
        if sh(f"git -C {WT} apply {d}/patch.diff").returncode != 0:
            status = "does-not-apply"
        else:
            try:
                ok, msg = build()
                if not ok:
                    status = "build-failed"
                else:
                    mut = "/tmp/revalidate_mut_sb_patch"
                    shutil.copy(f"{WT}/_b/app/sb_patch", mut)
                    d0 = sh(f"timeout 120 bash {d}/demo.sh {base} </dev/null").returncode
                    d1 = sh(f"timeout 120 bash {d}/demo.sh {mut} </dev/null").returncode
                    status = "valid" if (d0, d1) == (0, 1) else "neutralised" if (d0, d1) == (0, 0) else f"base-fails (demo {d0} on the unchanged binary, {d1} on the changed one)"
            finally:
                sh(f"git -C {WT} checkout -- .")
        meta["revalidated"] = {"head": head, "status": status}
        if status != "valid" and not meta.get("obsolete"):
            meta["obsolete"] = f"re-validation at {head[:7]}: {status}"
        json.dump(meta, open(mp, "w"), indent=1)
        print(sid, status, flush=True)


if __name__ == "__main__":
    main()
