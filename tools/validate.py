#!/opt/veriftools/pyvenv/bin/python
import json, jsonschema, glob, sys
jsonschema.validate(json.load(open('/verif/MANIFEST.json')), json.load(open('/root/.vp/MANIFEST.schema.json')))
s = json.load(open('/root/.vp/EVIDENCE.schema.json'))
for f in glob.glob('/verif/evidence/*.json'):
    jsonschema.validate(json.load(open(f)), s)
print("manifest + evidence valid")
