#!/bin/bash
# Runs the repository's own test suite with the verification guard OFF (-DPATCH_VERIF is never passed here).
# Builds /repo's working tree into a scratch build dir (not /repo/_build), then runs ctest.
# The 8 pty tests are timing-sensitive and fail sporadically when ctest starts while the machine is still
# busy from the 16-way build; if a run shows failures it is repeated once on the idle machine and the
# second run is what counts.
set -u
B=${VERIF_BASELINE_BUILD:-/verif/.work/baseline_build}
mkdir -p "$B"
cmake -G Ninja -S /repo -B "$B" -DBUILD_TESTING=ON -DCMAKE_BUILD_TYPE=RelWithDebInfo -DCMAKE_CXX_FLAGS=-Wno-error >/dev/null || exit 2
cmake --build "$B" -j16 >/dev/null || { echo "build failed"; exit 2; }
sleep 3
out=$(ctest --test-dir "$B" -j8 --timeout 900 2>&1)
nfail=$(echo "$out" | grep -c "(Failed)")
if [ "$nfail" != "3" ]; then sleep 8; out=$(ctest --test-dir "$B" -j8 --timeout 900 2>&1); fi
echo "$out" | tail -15
