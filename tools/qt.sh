#!/bin/bash
# quick suite summary: "<passed>/<total> failed: names"
/verif/tools/baseline_off.sh | grep -E "tests passed|\(Failed\)|build failed|Timeout|\*\*\*" | tr '\n' ' '; echo
