#!/usr/bin/env python3
"""Runs the registered quick checks against every kept seeded change (/verif/seeded/<id>/patch.diff): applies it to /repo, runs the
checks, undoes it (git checkout), and records which checks raise an alarm in /verif/seeded/RESULTS.json.
Usage: tools/run_seeded.py [seeded-id ...] [--checks C01,C02]   (default: every seeded change, its own property's check + a core set)"""
import json, os, subprocess, sys, time
HERE = os.path.dirname(os.path.dirname(os.path.abspath(__file__)))
SEEDED = os.path.join(HERE, "seeded")


def sh(cmd, **kw):
    return subprocess.run(cmd, shell=True, capture_output=True, text=True, **kw)


def main():
    args = [a for a in sys.argv[1:] if not a.startswith("--")]
    checks_opt = next((a.split("=", 1)[1] for a in sys.argv[1:] if a.startswith("--checks=")), None)
    ids = args or sorted(d for d in os.listdir(SEEDED) if os.path.isdir(os.path.join(SEEDED, d)))
    resf = os.path.join(SEEDED, "RESULTS.json")
    results = json.load(open(resf)) if os.path.exists(resf) else {}
    assert sh("git -C /repo status --porcelain --untracked-files=no").stdout.strip() == "", "/repo has uncommitted changes"
    for sid in ids:
        d = os.path.join(SEEDED, sid)
        meta = json.load(open(os.path.join(d, "meta.json")))
        prop = meta["property"]
        if meta.get("obsolete") and not args:
            print(sid, "obsolete:", meta["obsolete"][:120]); results.setdefault(sid, {"property": prop})["obsolete"] = meta["obsolete"]; continue
        checks = checks_opt.split(",") if checks_opt else [prop] + [c for c in meta.get("also_check", []) if c != prop]
        r = sh(f"git -C /repo apply {d}/patch.diff")
        if r.returncode != 0:
            print(sid, "patch does not apply:", r.stderr.strip()); results[sid] = {"error": "does not apply"}; continue
        caught = {}
        try:
            for c in checks:
                t = time.time()
                rr = sh(f"./check {c} --tier quick", cwd=HERE)
                lines = [l for l in rr.stdout.splitlines() if l.startswith("VIOLATION")]
                caught[c] = {"exit": rr.returncode, "violations": [l[:220] for l in lines[:3]], "wall_s": round(time.time() - t, 1)}
                print(sid, c, "CAUGHT" if rr.returncode != 0 else "missed", (lines[0][:160] if lines else ""))
        finally:
            sh("git -C /repo checkout -- .")
            sh(f"find {HERE}/replays -name '*.json' -delete")
        results[sid] = {"property": prop, "checks": caught, "caught_by": [c for c, v in caught.items() if v["exit"] != 0]}
        json.dump(results, open(resf, "w"), indent=1)
    # regenerated tables must be restored to the clean tree's content
    sh("python3 tools/gen_tables.py", cwd=HERE)


if __name__ == "__main__":
    main()
