#!/usr/bin/env python3
"""Regenerates MANIFEST.json from the table below (kept in one place so it is always valid)."""
import json, os, subprocess
HERE = os.path.dirname(os.path.dirname(os.path.abspath(__file__)))
DRV = ("; driver model (Model/Fs + Model/Driver) tied to sb_patch by T8 (exit status, whole final tree, events) and T9 (strace trace of mutating operations)")
CLAIMED = {
    "C01": ("theorems C01_core, C01_bytes (apply_patch on every valid script = the new file, every hunk at its stated line, nothing rejected/asked/printed), "
            "diffTrim_valid (a valid script exists for every file pair); ties T3, T4; oracles: output = B under random options; hunks parsed from GNU diff / emitter "
            "text are a Valid script whose splice is B (Lean spec); driver level: tree A + diff(A,B) by GNU diff / git / emitter (create, delete, rename, chmod, -d, stdin) = tree B, exit 0", "5/C01"),
    "C02": ("theorems ws_spec, lineMatches_spec, locate_sound, locate_insertion, spliceAt_fromFile/sorted/complete, C02_apply over the Lean model "
            "(all files, all well-formed hunk sequences, every -F, -l, -R, -N/-t/-f, every tty answer stream); ties T1 (exhaustive small scope), T2, T3; "
            "oracle on the implementation: output explained by increasing admissible placements", "5/C02"),
    "C03": ("theorems locate_complete, locate_least_fuzz, locate_exact, locate_insertion_exact, C03_step; ties T2, T3; oracle: brute-force "
            "enumeration of all admissible (position, fuzz) pairs per hunk on the implementation's answers", "5/C03"),
    "C04": ("theorems apply_total, apply_partition, rejected_are_shifted (apply_patch), exit_range, exit_truth (driver model: status 2 iff an exception reached main, "
            "1 iff a bad event was printed, 0 otherwise); ties T3, T8; oracles: no exception for well-formed patches, failure count = hunks not applied, reject "
            "bytes parsed by an independent strict parser, exit status vs verdicts on rich driver scenarios, reject file exists iff announced, full-device reject file" + DRV, "5/C04"),
    "C05": ("theorems reverse_involutive, reversePatch_involutive, reverse_sides, reversePatch_operation, reverse_valid, C05_core, C05_roundtrip; tie T3; driver "
            "level: tree B + diff(A,B) with -R = tree A for GNU/git/emitter diffs incl. create/delete/rename", "5/C05"),
    "C06": ("theorems C06_N, C06_t, C06_f over all two-step histories excluding the ambiguous case; tie T3; driver level: apply then re-apply with -N/-t/-f", "5/C06"),
    "C07": ("theorems (what the model carries): numbers read from a patch are within [0, 2^61-1] (consumeLineNumber/unified/normal/context ranges), guess/offset arithmetic "
            "stays in int64, offErr_after_apply, offNew_step, no_out_of_range, exit_status; ties T2-T7 on the ASan+UBSan build with extreme numbers; sanitised sb_patch on "
            "grammar-aware and blind mutations + an overflow probe corpus. Heap misuse inside std:: is searched for, not proved absent", "5/C07"),
    "C08": ("theorems parseAll_terminates (the section loop never runs out of its fuel: every pass consumes a line or ends), probes_bounded (<= (hunk lines+1)(file lines+1), "
            "independent of stated numbers), candidates_bounded, header/skipLines/getLine progress; all model functions total (Lean termination checker); ties T2, T4; sb_patch "
            "under time limits with numbers up to 2^63-1, hunk-less and repeated git headers", "5/C08"),
    "C09": ("theorems abort_keeps_state, section_atomic (a section abandoned for its text has only touched temporaries/chmod), writeFile_trace, finalize_removals_last; "
            "ties T8, T9; oracles: syntax error at a random line of multi-file streams -> every file original or completely patched, nothing lost; SIGKILL before every "
            "traced system call (strace injection) for rename/backup scenarios" + DRV, "5/C09"),
    "C10": ("theorems fault_is_fatal (a failed operation always ends in status 2: nothing catches or ignores it), fault_not_reached, fault_prefix over the driver model with a "
            "fault schedule; T10: every I/O system call after start-up of 16 scenarios failed once (EIO/ENOSPC/EACCES, strace injection): exit 2 + diagnostic or identical to the "
            "fault-free run" + DRV, "5/C10"),
    "C11": ("theorems inert_step(_git)_partial, headerLoop_filler_partial, filler_only_unknown, parseAll_trailing_filler (inert text is skipped by the header scan); tie T4; "
            "oracles: parse(S1..Sn) = parse(S1)++..++parse(Sn) with and without filler, auto-detect = explicit format; driver: combined run = separate runs, stdin = -i", "5/C11"),
    "C12": ("theorems strip_spec, strip_negative, basename_spec, stripSpec_add/components/too_few, quote_roundtrip (all byte strings), file_line_plain/quoted, "
            "devnull_never_stripped; tie T6 exhaustive small scope on the sanitised build; driver: first existing of old/new/Index for all existence patterns and -p, /dev/null never opened", "5/C12"),
    "C13": ("theorems unified_roundtrip, context_roundtrip (parse(write(hunks)) denotes the same changes, stream left at what follows), number/range round "
            "trips, reject_format_choice, reject_bytes_layout; ties T5 (exhaustive interleavings), T4 read-back, T3; oracles: independent strict readers, "
            "read-back by the implementation, shift by net growth, format choice", "5/C13"),
    "C14": ("theorems read_write_id, render_lf, render_crlf, render_keep, final_newline, splitLines_* invariants, hunkOutput_sources, "
            "spliceAt_sources; ties: reader (bytes->lines), T3 in all four modes; oracles: per-line terminator class and final-newline rule", "5/C14"),
    "C15": ("theorem C15_pure_partial (with --dry-run the only operations are creation+unlink of anonymous temporaries and the tree is unchanged, also on abort; hypothesis: no "
            "deferred work pending in the initial state), tmp_unlinked_at_once; ties T8, T9; oracles: tree incl. mtimes untouched, exit and verdicts equal to the real run, root and non-root; "
            "strace trace of the dry run contains only temporaries" + DRV, "5/C15"),
    "C16": ("theorem C16_paths (every mutating operation is on a target, its reject/backup name, a directory leading to them, or an anonymous temporary); ties T8, T9; oracles: "
            "bystander files untouched incl. mtime, strace paths within the allowed set, temp dir empty" + DRV, "5/C16"),
    "C17": ("theorems readonly_fail_untouched, writable_untouched, callback_mode, refuse_touches_only_rejects, refuse_dry; tie T8; oracles: sampled 9-bit modes x options x "
            "root/non-root, git mode headers, rename/copy keep the source mode, directory/FIFO/Prereq refusals" + DRV, "5/C17"),
    "C18": ("theorems backupName_spec, makeBackupFor_existing/absent/again; tie T8; oracles: decision table of the statement over all option combinations, content = bytes "
            "before the run, several sections incl. create/delete histories, cancelling offsets, pre-existing backups" + DRV, "5/C18"),
    "C19": ("theorems over any well-formed option table (short attached/separate, long =/separate, short=long, unambiguous prefix, ambiguous prefix rejected, "
            "bundle, --, operand position, rejections) + table_wf/table_handled by decide over the table REGENERATED from src/options.cpp on every run; tie T7 "
            "exhaustive over options x spellings x prefixes; driver: bad command lines exit 2 with the tree untouched", "5/C19"),
    "C20": ("theorem C20_merge (cppEval of the -D output = new file when defined, = original when not; balanced; nothing rejected) for every valid "
            "script with terminated, directive-free lines and grouped hunks; tie T3 with -D; oracle: independent Python preprocessor on the output bytes", "5/C20"),
}
TODO = {}
props = [json.loads(l) for l in open(os.path.join(HERE, "properties.jsonl"))]
fixes = subprocess.run(["git", "-C", "/repo", "log", "--format=%h %s", "--grep=^fix:"], capture_output=True, text=True).stdout.strip().splitlines()
hooks = subprocess.run(["git", "-C", "/repo", "log", "--format=%h", "--grep=^verif-hook:"], capture_output=True, text=True).stdout.split()
checks, na = [], []
for p in props:
    pid = p["id"]
    if pid in CLAIMED:
        text, ref = CLAIMED[pid]
        checks.append({
            "property_id": pid,
            "quick_cmd": f"./check {pid} --tier quick",
            "thorough_cmd": f"./check {pid} --tier thorough",
            "evidence_file": f"evidence/{pid}.json",
            "replay_cmd_template": f"./check {pid} --replay {{path}}",
            "engine": "lean-model+correspondence",
            "level_claimed": {"category": "proof", "text": text, "design_ref": ref},
            "level_note": "Trusted: Lean 4.33 kernel; axioms propext, Classical.choice, Quot.sound only (audited every run); the hand-written "
                          "model is tied to /repo by sampled differential correspondence (in-process harness / sb_patch runs), see DESIGN.md section 8",
            "technique": "Lean 4 theorems over a hand-written executable model + differential correspondence check against the built code",
        })
    else:
        na.append({"property_id": pid, "reason": TODO.get(pid, "check not built yet in this round (planned at proof level, see DESIGN.md section 5)")})
m = {
    "version": 1,
    "setup_cmd": "./setup.sh",
    "hooks": {"guard": "PATCH_VERIF", "enable": "checks compile /repo's working tree themselves with -DPATCH_VERIF (lib/common.py build_cut)",
              "baseline_off_cmd": "tools/baseline_off.sh", "source_commits": hooks, "add_only": True},
    "engines": [{"name": "lean-model+correspondence", "path": "check", "serves_properties": sorted(CLAIMED),
                 "kind_free_text": "Lean 4 model + theorems (lean/), C++ in-process harness (harness/inproc.cpp), Python orchestration (lib/)"}],
    "checks": checks,
    "not_applicable": na,
    "notes": "fix: commits in /repo: " + "; ".join(fixes),
}
json.dump(m, open(os.path.join(HERE, "MANIFEST.json"), "w"), indent=1)
print(len(checks), "claimed,", len(na), "not claimed")
