#!/usr/bin/env python3
"""Regenerates MANIFEST.json from the table below (kept in one place so it is always valid)."""
import json, os, subprocess
HERE = os.path.dirname(os.path.dirname(os.path.abspath(__file__)))
CLAIMED = {
    "C02": ("theorems ws_spec, lineMatches_spec, locate_sound, locate_insertion, spliceAt_fromFile/sorted/complete, C02_apply over the Lean model "
            "(all files, all well-formed hunk sequences, every -F, -l, -R, -N/-t/-f, every tty answer stream); model tied to the code by T1 "
            "(exhaustive small scope), T2, T3; oracle on the implementation: output explained by increasing admissible placements", "5/C02"),
    "C03": ("theorems locate_complete, locate_least_fuzz, locate_exact, locate_insertion_exact, C03_step; ties T2, T3; oracle: brute-force "
            "enumeration of all admissible (position, fuzz) pairs per hunk on the implementation's answers", "5/C03"),
    "C04": ("theorems apply_total, apply_partition, rejected_are_shifted (apply_patch level); tie T3; oracles: no exception for well-formed "
            "patches, failure count = hunks not applied, reject bytes parsed by an independent strict parser hold exactly those hunks, output "
            "explained by exactly the hunks reported applied. Driver-level clauses (exit status, reject file on disk) are added by the driver tie when built", "5/C04"),
    "C01": ("theorems C01_core, C01_bytes (apply_patch on every valid script = the new file, every hunk at its stated line, nothing rejected/asked/printed), "
            "diffTrim_valid (a valid script exists for every file pair); ties T3, T4; oracles: output = B for generated pairs under random options; hunks parsed "
            "from GNU diff / emitter text are a Valid script whose splice is B (Lean spec). Driver-level clauses are added by the driver tie when built", "5/C01"),
    "C12": ("theorems strip_spec, strip_negative, basename_spec, stripSpec_add/components/too_few, quote_roundtrip (all byte strings), file_line_plain/quoted, "
            "devnull_never_stripped; tie T6 exhaustive small scope on the sanitised build; oracles: independent -pN, decode(quote(name)) = name", "5/C12"),
    "C13": ("theorems unified_roundtrip, context_roundtrip (parse(write(hunks)) denotes the same changes, stream left at what follows), number/range round "
            "trips, reject_format_choice, reject_bytes_layout; ties T5 (exhaustive interleavings), T4 read-back, T3; oracles: independent strict readers, "
            "read-back by the implementation, shift by net growth, format choice", "5/C13"),
    "C19": ("theorems over any well-formed option table (short attached/separate, long =/separate, short=long, unambiguous prefix, ambiguous prefix rejected, "
            "bundle, --, operand position, rejections) + table_wf/table_handled by decide over the table REGENERATED from src/options.cpp on every run; tie T7 "
            "exhaustive over options x spellings x prefixes", "5/C19"),
    "C14": ("theorems read_write_id, render_lf, render_crlf, render_keep, final_newline, splitLines_* invariants, hunkOutput_sources, "
            "spliceAt_sources; ties: reader (bytes->lines), T3 in all four modes; oracles: per-line terminator class and final-newline rule", "5/C14"),
    "C20": ("theorem C20_merge (cppEval of the -D output = new file when defined, = original when not; balanced; nothing rejected) for every valid "
            "script with terminated, directive-free lines and grouped hunks; tie T3 with -D; oracle: independent Python preprocessor on the output bytes", "5/C20"),
}
TODO = {}
props = [json.loads(l) for l in open(os.path.join(HERE, "properties.jsonl"))]
fixes = subprocess.run(["git", "-C", "/repo", "log", "--format=%h %s", "--grep=^fix:"], capture_output=True, text=True).stdout.strip().splitlines()
hooks = subprocess.run(["git", "-C", "/repo", "log", "--format=%h", "--grep=^verif-hook:"], capture_output=True, text=True).stdout.split()
checks, na = [], []
for p in props:
    pid = p["id"]
    if pid in CLAIMED:
        text, ref = CLAIMED[pid]
        checks.append({
            "property_id": pid,
            "quick_cmd": f"./check {pid} --tier quick",
            "thorough_cmd": f"./check {pid} --tier thorough",
            "evidence_file": f"evidence/{pid}.json",
            "replay_cmd_template": f"./check {pid} --replay {{path}}",
            "engine": "lean-model+correspondence",
            "level_claimed": {"category": "proof", "text": text, "design_ref": ref},
            "level_note": "Trusted: Lean 4.33 kernel; axioms propext, Classical.choice, Quot.sound only (audited every run); the hand-written "
                          "model is tied to /repo by sampled differential correspondence (in-process harness / sb_patch runs), see DESIGN.md section 8",
            "technique": "Lean 4 theorems over a hand-written executable model + differential correspondence check against the built code",
        })
    else:
        na.append({"property_id": pid, "reason": TODO.get(pid, "check not built yet in this round (planned at proof level, see DESIGN.md section 5)")})
m = {
    "version": 1,
    "setup_cmd": "./setup.sh",
    "hooks": {"guard": "PATCH_VERIF", "enable": "checks compile /repo's working tree themselves with -DPATCH_VERIF (lib/common.py build_cut)",
              "baseline_off_cmd": "tools/baseline_off.sh", "source_commits": hooks, "add_only": True},
    "engines": [{"name": "lean-model+correspondence", "path": "check", "serves_properties": sorted(CLAIMED),
                 "kind_free_text": "Lean 4 model + theorems (lean/), C++ in-process harness (harness/inproc.cpp), Python orchestration (lib/)"}],
    "checks": checks,
    "not_applicable": na,
    "notes": "fix: commits in /repo: " + "; ".join(fixes),
}
json.dump(m, open(os.path.join(HERE, "MANIFEST.json"), "w"), indent=1)
print(len(checks), "claimed,", len(na), "not claimed")
