#!/usr/bin/env python3
"""Regenerates MANIFEST.json from the table below (kept in one place so it is always valid)."""
import json, os, subprocess
HERE = os.path.dirname(os.path.dirname(os.path.abspath(__file__)))
DRV = ("; driver model (Model/Fs + Model/Driver) tied to sb_patch by T8 (exit status, whole final tree, events) and T9 (strace trace of mutating operations)")
CLAIMED = {
    "C01": ("theorems C01_core, C01_bytes (apply_patch on every valid script = the new file, every hunk at its stated line, nothing rejected/asked/printed), "
            "diffTrim_valid (a valid script exists for every file pair); ties T3, T4; oracles: output = B under random options; hunks parsed from GNU diff / emitter "
            "text are a Valid script whose splice is B (Lean spec); driver level: tree A + diff(A,B) by GNU diff / git / emitter (create, delete, rename, chmod, -d, stdin) = tree B, exit 0", "5/C01"),
    "C02": ("theorems ws_spec, lineMatches_spec, locate_sound, locate_insertion, spliceAt_fromFile/sorted/complete, C02_apply over the Lean model "
            "(all files, all well-formed hunk sequences, every -F, -l, -R, -N/-t/-f, every tty answer stream); ties T1 (exhaustive small scope), T2, T3; "
            "oracle on the implementation: output explained by increasing admissible placements", "5/C02"),
    "C03": ("theorems locate_complete, locate_least_fuzz, locate_exact, locate_insertion_exact, C03_step; ties T2, T3; oracle: brute-force "
            "enumeration of all admissible (position, fuzz) pairs per hunk on the implementation's answers", "5/C03"),
    "C04": ("theorems apply_total, apply_partition, rejected_are_shifted (apply_patch), exit_range, exit_truth (driver model: status 2 iff an exception reached main, "
            "1 iff a bad event was printed, 0 otherwise); ties T3, T8; oracles: no exception for well-formed patches, failure count = hunks not applied, reject "
            "bytes parsed by an independent strict parser, exit status vs verdicts on rich driver scenarios, reject file exists iff announced, full-device reject file" + DRV, "5/C04"),
    "C05": ("theorems reverse_involutive, reversePatch_involutive, reverse_sides, reversePatch_operation, reverse_valid, C05_core, C05_roundtrip; tie T3; driver "
            "level: tree B + diff(A,B) with -R = tree A for GNU/git/emitter diffs incl. create/delete/rename", "5/C05"),
    "C06": ("theorems C06_N, C06_t, C06_f over all two-step histories excluding the ambiguous case; tie T3; driver level: apply then re-apply with -N/-t/-f", "5/C06"),
    "C07": ("theorems (what the model carries): numbers read from a patch are within [0, 2^61-1] (consumeLineNumber/unified/normal/context ranges), guess/offset arithmetic "
            "stays in int64, offErr_after_apply, offNew_step, no_out_of_range, exit_status; ties T2-T7 on the ASan+UBSan build with extreme numbers; sanitised sb_patch on "
            "grammar-aware and blind mutations + an overflow probe corpus. Heap misuse inside std:: is searched for, not proved absent", "5/C07"),
    "C08": ("theorems parseAll_terminates (the section loop never runs out of its fuel: every pass consumes a line or ends), probes_bounded (<= (hunk lines+1)(file lines+1), "
            "independent of stated numbers), candidates_bounded, header/skipLines/getLine progress; all model functions total (Lean termination checker); ties T2, T4; sb_patch "
            "under time limits with numbers up to 2^63-1, hunk-less and repeated git headers", "5/C08"),
    "C09": ("theorems abort_keeps_state, section_atomic (a section abandoned for its text has only touched temporaries/chmod), writeFile_trace, finalize_removals_last; "
            "ties T8, T9; oracles: syntax error at a random line of multi-file streams -> every file original or completely patched, nothing lost; SIGKILL before every "
            "traced system call (strace injection) for rename/backup scenarios" + DRV, "5/C09"),
    "C10": ("theorems fault_is_fatal (a failed operation always ends in status 2: nothing catches or ignores it), fault_not_reached, fault_prefix over the driver model with a "
            "fault schedule; T10: every I/O system call after start-up of 16 scenarios failed once (EIO/ENOSPC/EACCES, strace injection): exit 2 + diagnostic or identical to the "
            "fault-free run" + DRV, "5/C10"),
    "C11": ("theorems inert_step(_git)_partial, headerLoop_filler_partial, filler_only_unknown, parseAll_trailing_filler (inert text is skipped by the header scan); tie T4; "
            "oracles: parse(S1..Sn) = parse(S1)++..++parse(Sn) with and without filler, auto-detect = explicit format; driver: combined run = separate runs, stdin = -i", "5/C11"),
    "C12": ("theorems strip_spec, strip_negative, basename_spec, stripSpec_add/components/too_few, quote_roundtrip (all byte strings), file_line_plain/quoted, "
            "devnull_never_stripped; tie T6 exhaustive small scope on the sanitised build; driver: first existing of old/new/Index for all existence patterns and -p, /dev/null never opened", "5/C12"),
    "C13": ("theorems unified_roundtrip, context_roundtrip (parse(write(hunks)) denotes the same changes, stream left at what follows), number/range round "
            "trips, reject_format_choice, reject_bytes_layout; ties T5 (exhaustive interleavings), T4 read-back, T3; oracles: independent strict readers, "
            "read-back by the implementation, shift by net growth, format choice", "5/C13"),
    "C14": ("theorems read_write_id, render_lf, render_crlf, render_keep, final_newline, splitLines_* invariants, hunkOutput_sources, "
            "spliceAt_sources; ties: reader (bytes->lines), T3 in all four modes; oracles: per-line terminator class and final-newline rule", "5/C14"),
    "C15": ("theorem C15_pure_partial (with --dry-run the only operations are creation+unlink of anonymous temporaries and the tree is unchanged, also on abort; hypothesis: no "
            "deferred work pending in the initial state), tmp_unlinked_at_once; ties T8, T9; oracles: tree incl. mtimes untouched, exit and verdicts equal to the real run, root and non-root; "
            "strace trace of the dry run contains only temporaries" + DRV, "5/C15"),
    "C16": ("theorem C16_paths (every mutating operation is on a target, its reject/backup name, a directory leading to them, or an anonymous temporary); ties T8, T9; oracles: "
            "bystander files untouched incl. mtime, strace paths within the allowed set, temp dir empty" + DRV, "5/C16"),
    "C17": ("theorems readonly_fail_untouched, writable_untouched, callback_mode, refuse_touches_only_rejects, refuse_dry; tie T8; oracles: sampled 9-bit modes x options x "
            "root/non-root, git mode headers, rename/copy keep the source mode, directory/FIFO/Prereq refusals" + DRV, "5/C17"),
    "C18": ("theorems backupName_spec, makeBackupFor_existing/absent/again; tie T8; oracles: decision table of the statement over all option combinations, content = bytes "
            "before the run, several sections incl. create/delete histories, cancelling offsets, pre-existing backups" + DRV, "5/C18"),
    "C19": ("theorems over any well-formed option table (short attached/separate, long =/separate, short=long, unambiguous prefix, ambiguous prefix rejected, "
            "bundle, --, operand position, rejections) + table_wf/table_handled by decide over the table REGENERATED from src/options.cpp on every run; tie T7 "
            "exhaustive over options x spellings x prefixes; driver: bad command lines exit 2 with the tree untouched", "5/C19"),
    "C20": ("theorem C20_merge (cppEval of the -D output = new file when defined, = original when not; balanced; nothing rejected) for every valid "
            "script with terminated, directive-free lines and grouped hunks; tie T3 with -D; oracle: independent Python preprocessor on the output bytes", "5/C20"),
}
# round two (DESIGN.md section 12): theorems and scenarios added since the table above was written
ADDED = {
    "C01": " Round two: C01_section and the END-TO-END theorem C01_run(_filler/_guess): for the text of a unified diff of a file (header lines + write_hunk_as_unified of a "
           "valid script, optional inert filler in front, CRLF lines included) the whole modelled program exits 0, leaves exactly the new content with the old mode and "
           "changes no other path; the proof attempt found D48 (first hunk line '--- x' dropped the hunk), fixed. Scenarios: empty-file git create/delete, edit+copy, "
           "content lines that look like headers, fixed regressions D48 D66 D79; finding D69.",
    "C03": " Round two: rejected_had_no_placement_at (every rejected hunk of a whole run had no admissible placement from the cursor left by the hunks applied before it).",
    "C04": " Round two: writeRejects_twice (rejects of later sections are added, not lost: fix D52), refuse_no_hunks; regressions D52 D61 D63 D65; findings D56 D57 D58.",
    "C05": " Round two: guessFilepath_reverse_made; scenarios: swapped / chained git renames under -R (fix D46), empty-file sections, modes under -R; finding D70.",
    "C06": " Round two: creation patches are inside (FirstHunkNoLongerFits second disjunct), C06_t gives r.patch = reversePatch p0, C06_t_creation (fix D45).",
    "C07": " Round two: normal_counts bounded below (fix D74), 19/20-digit numbers, no-newline marker at every position, single-fault schedules checked for std::terminate.",
    "C08": " Round two: git_header_consumed (fix D40), hang detection in the in-process tie with the request as failing input, binary markers, absolute paths.",
    "C09": " Round two: section_atomic_strict (an abandoned section has not even changed a mode), deferred_write_touches_nothing / _no_backup_yet (fix D31), removal-with-backup "
           "(fix D47); swap scenarios in the kill enumeration (finding D23).",
    "C11": " Round two: unified_header_roundtrip/_after_filler/_forced, first_hunk_line_like_header, forced_format_trailing_garbage (fix D43), prereq_not_stripped; driver: "
           "git create/delete sharing directories, -u/-c forced, modes compared; regression D78; findings D29 D67.",
    "C12": " Round two: git_name_p0 (fix D50), git_header_same_name + git_header_split_unique (fix D51).",
    "C13": " Round two: the round trips are now EXACT (CRLF class kept: fix D49) - unified_roundtrip returns hs itself; reject_shift (exact shift of every rejected hunk); "
           "reject totals across shared reject files.",
    "C14": " Round two: getLine_never_none (only the marker makes a line unterminated: fix D53), output_sources; regressions D53.",
    "C15": " Round two: C15_section_fidelity, C15_run_dry(_filler) (end to end: exit 0 and tree untouched); findings D59 D60.",
    "C16": " Round two: fs_is_replay (the trace is the complete account of every run, faults and aborts included), untouched_paths_unchanged; AllowedC widened by the backup "
           "name of a rename's source (fix D47, old form refuted by C16_old_allowed_false); -o and Index/-pN families; regression D64.",
    "C17": " Round two: fixPermissions_reads_only, section_chmod_late / run_chmod_late (fix D41), refuse_no_hunks, symlink and non-regular output refusals (fixes D76 D77), "
           "Prereq (fix D75); finding D68.",
    "C18": " Round two: writeNow_backup_first, finalize_backup_first, makeBackupFor_existing_mkdir (-B bak/: fix D62), finalizeRemoval_backup; findings D39 D44.",
    "C19": " Round two: stoi_leading_space, stoi_accepts_only_numbers (fix D55).",
    "C20": " Round two: C20_merge WITHOUT the 'grouped' hypothesis (any interleaving of - and + lines: fix D42); -R -D, -l drift, interleaved hunks.",
}
ROUND3 = {
    "C01": " Round three: regression D86 (first hunk line empty), guessFilepath_delete_missing.",
    "C04": " Round three: regression D91 (rmdir EACCES), writeRejects through T8-hunted.",
    "C06": " Round three: a removal applied a second time (fix D88), scenarios with -N and -t.",
    "C09": " Round three: --backup + git stream + truncated last section as a concrete oracle (seeded change C09-m4).",
    "C10": " Round three: outcome compares files (a directory which stays behind after an injected rmdir failure is harmless since fix D91).",
    "C11": " Round three: prereq_word (fix D90); finding D96.",
    "C12": " Round three: the escapes \\a \\b \\f \\r \\v (fix D89); finding D87.",
    "C13": " Round three: unified_final_cr_is_crlf (fix D85).",
    "C14": " Round three: getLine_cases / getLine_last_bare_cr (a CRLF patch cut off before its last newline: fix D85).",
    "C15": " Round three: dry run vs real run with an rmdir that fails (fix D91), owner-unwritable files (fix D94).",
    "C16": " Round three: reject file / empty backup names that are symbolic links (fix D95), -R of a link creation (fix D92).",
    "C17": " Round three: chmod_directly (the chmod now comes after the backup and directly before the creat: fix D93), C17_run_backup_keeps_mode, owner write bit "
           "only (fix D94), every kind of symbolic-link target against changing / creating / link-removing patches (fix D92, seeded change C17-m5).",
    "C18": " Round three: trace shape mkdirs ++ backup ++ [chmod]? ++ write (fix D93); rename onto a directory fails in the model as it does on disk.",
}
ROUND3B = {
    "C01": " guessFilepath_never_devnull / _index_only (fix D104); finding D103. New end-to-end theorems C01_run_newfile(_bare/_in_dir), C01_run_create*, C01_run_delete* (creation and removal of a file by a plain unified diff, whole program).",
    "C02": " regression D97 (line added behind an unterminated last line); admissibleB widened (fix D99/D109).",
    "C03": " locate_complete / locate_least_fuzz / locate_exact now hold for the wider admissibleB (a hunk may reach beyond the end of the file by the lines fuzz ignores at its end, and may be placed at the very end: fixes D99, D109); concrete instances C03.D99.",
    "C05": " regression D104; finding D108.",
    "C06": " skipped/failed removal keeps an empty file (fix D110); finding D100; C06_run_delete_again_N (a removal applied a second time with -N, end to end).",
    "C07": " extreme -p / -F values against every kind of header name (fix D98).",
    "C08": " candidates_bounded: size + 1 positions (fix D109).",
    "C10": " fault_is_fatal / fault_prefix have a third outcome: a failing chmod that has nothing to change is tolerated (fix D105); fault_is_fatal_unless_chmod.",
    "C14": " render_terminates_inner, text_read_write_id, output_inner_terminated (fix D97).",
    "C15": " finding D107 (scenario with a limit on open files); C15_run_create_*_dry, C15_run_delete_dry.",
    "C16": " openRejects_replaces / openRejects_named_keeps_link (fix D101); git rename/copy without -p and Index-named creation families (seeded changes C16-m4, C16-m5); regression D106.",
    "C17": " submodule_mode_is_no_link (fix D102), chmod_fault_tolerated (fix D105).",
    "C18": " makeBackupFor_not_regular (fix D106), makeBackupFor_missing_replaces (fix D101); sections with two hunks (seeded change C18-m4).",
    "C20": " unterminated_line_then_directive, C20_merge_bytes (fix D97).",
}
ROUND4 = {
    "C05": " Round four: C05_run_uncreate (-R of a creating patch removes the file) and C05_roundtrip_create (create, then -R: every path of the tree is back), about runPatch.",
    "C04": " Round four: C04_run_delete_leftover (a removal whose target holds more than it removes: every hunk applies, exit 1, the file keeps exactly what is "
           "left, no reject), family + tie T8-removal-leftover.",
    "C10": " Round four: standard input delivered in pieces (short reads on fd 0; scenario two-files-stdin-in-pieces, seeded change C10-m5).",
    "C18": " Round four: C18_run_delete_backup (_gen/_name/_stamped/_dry): the removal of a file with --backup, end to end about runPatch - the backup holds the "
           "pre-patch bytes and mode, the file is gone, nothing else changes, one rename and no unlink. C18_run_create_backup (_of_lines/_gen/_taken/_dry): the creation of a file with --backup - an empty backup is made before the "
           "target, a file or link in its way is unlinked first.",
}
for k, v in ROUND3B.items():
    ROUND3[k] = ROUND3.get(k, "") + v
for k, v in ROUND4.items():
    ROUND3[k] = ROUND3.get(k, "") + v
for k, v in ROUND3.items():
    ADDED[k] = ADDED.get(k, "") + v
TODO = {}
props = [json.loads(l) for l in open(os.path.join(HERE, "properties.jsonl"))]
fixes = subprocess.run(["git", "-C", "/repo", "log", "--format=%h %s", "--grep=^fix:"], capture_output=True, text=True).stdout.strip().splitlines()
hooks = subprocess.run(["git", "-C", "/repo", "log", "--format=%h", "--grep=^verif-hook:"], capture_output=True, text=True).stdout.split()
checks, na = [], []
for p in props:
    pid = p["id"]
    if pid in CLAIMED:
        text, ref = CLAIMED[pid]
        text += ADDED.get(pid, "")
        checks.append({
            "property_id": pid,
            "quick_cmd": f"./check {pid} --tier quick",
            "thorough_cmd": f"./check {pid} --tier thorough",
            "evidence_file": f"evidence/{pid}.json",
            "replay_cmd_template": f"./check {pid} --replay {{path}}",
            "engine": "lean-model+correspondence",
            "level_claimed": {"category": "proof", "text": text, "design_ref": ref},
            "level_note": "Trusted: Lean 4.33 kernel; axioms propext, Classical.choice, Quot.sound only (audited every run); the hand-written "
                          "model is tied to /repo by sampled differential correspondence (in-process harness / sb_patch runs), see DESIGN.md section 8",
            "technique": "Lean 4 theorems over a hand-written executable model + differential correspondence check against the built code",
        })
    else:
        na.append({"property_id": pid, "reason": TODO.get(pid, "check not built yet in this round (planned at proof level, see DESIGN.md section 5)")})
m = {
    "version": 1,
    "setup_cmd": "./setup.sh",
    "hooks": {"guard": "PATCH_VERIF", "enable": "checks compile /repo's working tree themselves with -DPATCH_VERIF (lib/common.py build_cut)",
              "baseline_off_cmd": "tools/baseline_off.sh", "source_commits": hooks, "add_only": True},
    "engines": [{"name": "lean-model+correspondence", "path": "check", "serves_properties": sorted(CLAIMED),
                 "kind_free_text": "Lean 4 model + theorems (lean/), C++ in-process harness (harness/inproc.cpp), Python orchestration (lib/)"}],
    "checks": checks,
    "not_applicable": na,
    "notes": "fix: commits in /repo: " + "; ".join(fixes),
}
json.dump(m, open(os.path.join(HERE, "MANIFEST.json"), "w"), indent=1)
print(len(checks), "claimed,", len(na), "not claimed")
