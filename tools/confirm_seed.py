#!/usr/bin/env python3
"""Confirms a seeded change delivered by a sub-agent before it is kept: in a scratch worktree of /repo (outside /repo and /verif) apply
patch.diff, build, run the repository's own suite (must be 433 pass / the 3 known failures), run demo.sh against the unmodified binary
(must exit 0) and the changed binary (must exit 1). On success copies patch.diff, demo.sh, meta.json to /verif/seeded/<name>/.
Usage: tools/confirm_seed.py <delivered-dir> <name>"""
import json, os, shutil, subprocess, sys, time
WT = "/tmp/confirm_wt"


def sh(cmd, **kw):
    return subprocess.run(cmd, shell=True, capture_output=True, text=True, **kw)


def build_and_test(tag):
    b = f"{WT}/_b"
    r = sh(f"cmake -G Ninja -S {WT} -B {b} -DBUILD_TESTING=ON -DCMAKE_BUILD_TYPE=RelWithDebInfo -DCMAKE_CXX_FLAGS=-Wno-error >/dev/null && cmake --build {b} -j16 2>&1 | tail -3")
    if r.returncode != 0 or "error" in r.stdout.lower():
        return False, "build failed: " + r.stdout[-300:]
    for attempt in range(3):
        time.sleep(4)
        t = sh(f"ctest --test-dir {b} -j8 --timeout 900 2>&1 | grep -E 'tests passed|\\(Failed\\)'").stdout
        failed = sorted(l.split(" - ")[1].split(" ")[0] for l in t.splitlines() if "(Failed)" in l)
        if failed == ["compat.read_only_file_fail", "compat.read_only_file_no_arguments", "compat.read_only_file_warn"]:
            return True, "433 pass, 3 known failures"
    return False, "suite: " + t[-400:]


def main():
    src, name = sys.argv[1], sys.argv[2]
    if not os.path.exists(WT):
        assert sh(f"git -C /repo worktree add -q {WT} HEAD").returncode == 0
    sh(f"git -C {WT} checkout -q --detach $(git -C /repo rev-parse HEAD) && git -C {WT} checkout -- .")
    base = "/tmp/confirm_base_sb_patch"
    head = sh("git -C /repo rev-parse HEAD").stdout.strip()
    if not os.path.exists(base) or open(base + ".rev").read() != head:
        ok, msg = build_and_test("base")
        assert ok, msg
        shutil.copy(f"{WT}/_b/app/sb_patch", base); open(base + ".rev", "w").write(head)
    r = sh(f"git -C {WT} apply {src}/patch.diff")
    if r.returncode != 0:
        print("REJECT: patch does not apply to HEAD:", r.stderr.strip()); return 1
    try:
        ok, msg = build_and_test("mut")
        if not ok:
            print("REJECT:", msg); return 1
        mut = "/tmp/confirm_mut_sb_patch"
        shutil.copy(f"{WT}/_b/app/sb_patch", mut)
        d0 = sh(f"timeout 120 bash {src}/demo.sh {base} </dev/null")
        d1 = sh(f"timeout 120 bash {src}/demo.sh {mut} </dev/null")
        if d0.returncode != 0 or d1.returncode != 1:
            print(f"REJECT: demo exits {d0.returncode} on the unmodified binary (want 0) and {d1.returncode} on the changed one (want 1)"); return 1
    finally:
        sh(f"git -C {WT} checkout -- .")
    dst = os.path.join("/verif/seeded", name)
    os.makedirs(dst, exist_ok=True)
    for f in ("patch.diff", "demo.sh"):
        shutil.copy(os.path.join(src, f), dst)
    meta = json.load(open(os.path.join(src, "meta.json")))
    meta["property"] = name.split("-")[0]      # (agents sometimes put the whole title there)
    meta["confirmed"] = {"suite": msg, "demo_unmodified_exit": 0, "demo_changed_exit": 1, "at_repo_head": head,
                         "how": "tools/confirm_seed.py: scratch worktree of /repo, cmake build, ctest, demo.sh against both binaries"}
    json.dump(meta, open(os.path.join(dst, "meta.json"), "w"), indent=1)
    print("KEPT", name, "-", meta.get("summary", "")[:120])
    return 0


if __name__ == "__main__":
    sys.exit(main())
