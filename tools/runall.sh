#!/bin/bash
# run all 20 checks (4 at a time), print verdict lines
cd /verif
tier=${1:-quick}
ls lib/props | grep -o "c[0-9][0-9]" | sort -u | tr a-z A-Z | xargs -P 4 -I{} sh -c "VERIF_NOLEAN=${VERIF_NOLEAN:-} ./check {} --tier $tier > .work/all_{}.log 2>&1; echo {} exit=\$?"
grep -h -E "^VIOLATION|^KNOWN-FINDING|Traceback" .work/all_C*.log | cut -c1-220
