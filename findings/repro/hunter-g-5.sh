#!/bin/sh
# C01: context diffs as written by GNU diff -c --suppress-blank-empty (an empty unchanged line is an empty line)
# and diff -c -T (a tab instead of the space after the marker) are fatal errors; GNU patch applies both.
# Neighbour of fix 09e0686 which handled --suppress-blank-empty for the first line of a unified hunk only.
BIN="${1:?usage: $0 /path/to/sb_patch}"
D=/tmp/hunt_g/f5.$$
rm -rf "$D"; mkdir -p "$D"; cd "$D" || exit 2
printf 'a\n\nb\nc\n' > A; printf 'a\n\nB\n\nc\n' > B
diff -c --suppress-blank-empty A B > p1.diff
diff -c -T A B > p2.diff
bad=0
for p in p1 p2; do
  cp A f; chown -R 65534:65534 "$D"; chmod 777 "$D"
  timeout 5 setpriv --reuid=65534 --regid=65534 --clear-groups "$BIN" -f -i $p.diff f </dev/null; rc=$?
  echo "$p: exit status $rc"
  if [ $rc -ne 0 ] || ! cmp -s f B; then echo "VIOLATION: $p.diff (below) not applied"; sed 's/^/    /' $p.diff | cat -A | head -20; bad=1; fi
done
cd /; rm -rf "$D"
exit $bad
