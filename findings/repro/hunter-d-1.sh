#!/bin/sh
# C14 (also C11/C01): a CRLF patch whose very last newline is missing keeps the CR of its last line as part of
# the line text. Incomplete fix 34d11fd ("the last line of a patch is a line without a newline after it too").
# exit 0 = property holds, 1 = violated
SB=${1:-/tmp/head_wt/_b/app/sb_patch}
D=$(mktemp -d /tmp/hunt_d/f1.XXXXXX); chmod 777 "$D"; cd "$D" || exit 2
run() { chown -R 65534:65534 . ; timeout 5 setpriv --reuid=65534 --regid=65534 --clear-groups "$SB" "$@" </dev/null; }
bad=0
# (a) added last line, --newline-output=lf: every terminator written must be LF
printf 'a\r\nb\r\n' > f; chmod 666 f
printf -- '--- f\n+++ f\n@@ -1,2 +1,3 @@\n a\r\n b\r\n+c\r' > p     # same patch as with a final \n, which gives a\nb\nc\n
run --newline-output=lf -i p >out 2>&1; rc=$?
printf 'a\nb\nc\n' > want
cmp -s f want || { echo "(a) lf mode wrote:"; od -c f | head -3; bad=1; }
# (b) crlf mode: writes c\r\r\n
printf 'a\r\nb\r\n' > f
run --newline-output=crlf -i p >out 2>&1
printf 'a\r\nb\r\nc\r\n' > want
cmp -s f want || { echo "(b) crlf mode wrote:"; od -c f | head -3; bad=1; }
# (c) last line is context: the hunk no longer matches exactly (fuzz + backup), context format dies with status 2
printf 'a\r\nb\r\nc\r\n' > f
printf -- '--- f\n+++ f\n@@ -1,3 +1,3 @@\n a\r\n-b\r\n+B\r\n c\r' > p
run --newline-output=preserve -i p >out 2>&1; rc=$?
if [ $rc -ne 0 ] || grep -q fuzz out || [ -e f.orig ]; then echo "(c) unified: rc=$rc"; cat out; bad=1; fi
rm -f f.orig f.rej
printf 'a\r\nb\r\nc\r\n' > f
printf -- '*** f\n--- f\n***************\n*** 1,3 ****\n  a\r\n! b\r\n  c\r\n--- 1,3 ----\n  a\r\n! B\r\n  c\r' > p
run --newline-output=preserve -i p >out 2>&1; rc=$?
if [ $rc -ne 0 ]; then echo "(c) context: rc=$rc"; cat out; bad=1; fi
cd /; rm -rf "$D"
exit $bad
