#!/bin/sh
# C01: output of a conforming producer (GNU diff -u --suppress-blank-empty; POSIX lets an empty context line be
# written as an empty line) is taken for garbage when the FIRST line of the first hunk is such an empty line.
# Anywhere else in a hunk the empty line is accepted. Neighbour of fix ca41f60 (check for the first hunk line).
SB=${1:-/tmp/head_wt/_b/app/sb_patch}
D=$(mktemp -d /tmp/hunt_d/f2.XXXXXX); chmod 777 "$D"; cd "$D" || exit 2
run() { chown -R 65534:65534 . ; timeout 5 setpriv --reuid=65534 --regid=65534 --clear-groups "$SB" "$@" </dev/null; }
bad=0
printf '\nb\nc\n' > f; printf '\nB\nc\n' > g; chmod 666 f g
diff -u --suppress-blank-empty f g > p       # "@@ -1,3 +1,3 @@" is followed by an empty line
run -i p f >out 2>&1; rc=$?
if [ $rc -ne 0 ] || ! cmp -s f g; then echo "unified: rc=$rc"; cat out; bad=1; fi
# control: the same kind of line as second line of the hunk is fine
printf 'a\n\nb\nc\n' > f; printf 'a\n\nB\nc\n' > g
diff -u --suppress-blank-empty f g > p
run -i p f >out 2>&1 || { echo "control failed"; cat out; }
cmp -s f g || echo "control differs"
cd /; rm -rf "$D"
exit $bad
