#!/bin/bash
# git 'deleted file mode' without hunks (removal of an empty file) against a file which holds lines:
# the removal is not done, so this must be reported and exit 1 (as with '+++ /dev/null': "Not deleting file ...").
# Observed: "patching file f", exit 0, file kept.
BIN="${1:-/tmp/head_wt/_b/app/sb_patch}"
W="$(mktemp -d /tmp/hunt_k_f4.XXXXXX)"
trap 'rm -rf "$W"' EXIT
chmod 777 "$W"
run() { ( cd "$W" && timeout 5 setpriv --reuid=65534 --regid=65534 --clear-groups "$BIN" "$@" </dev/null ); }
own() { chown -R 65534:65534 "$W"; chmod -R a+rwX "$W"; }
printf 'a\nb\nc\n' > "$W/f"
printf 'diff --git a/f b/f\ndeleted file mode 100644\nindex e69de29..0000000\n' > "$W/p.diff"
own
run -p1 -f -i p.diff > "$W/log" 2>&1; rc=$?
echo "exit=$rc"; cat "$W/log"; ls -la "$W"
if [ "$rc" = 0 ] && [ -e "$W/f" ]; then
  echo "VIOLATED: exit 0 although the file was not removed and nothing was reported"; exit 1
fi
echo holds; exit 0
