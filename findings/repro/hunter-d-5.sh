#!/bin/sh
# C05 (and C17/C16): a git patch about a symbolic link (mode 120000) is applied THROUGH the link in every case but
# creation. -R of a patch which created a link does not remove the link: what the link points to is read, the hunk
# fails, the link is moved to l.orig and a regular file with the content of the link's target takes its place.
# Incomplete fix f57c9dc ("refuse to patch through a symbolic link ... unless the patch itself is about one").
SB=${1:-/tmp/head_wt/_b/app/sb_patch}
D=$(mktemp -d /tmp/hunt_d/f5.XXXXXX); chmod 777 "$D"; cd "$D" || exit 2
run() { chown -hR 65534:65534 . ; timeout 5 setpriv --reuid=65534 --regid=65534 --clear-groups "$SB" "$@" </dev/null; }
bad=0
printf 'r\n' > real
printf 'diff --git a/l b/l\nnew file mode 120000\nindex 0000000..1234567\n--- /dev/null\n+++ b/l\n@@ -0,0 +1 @@\n+real\n\\ No newline at end of file\n' > p
run -p1 -i p >out 2>&1; rc=$?
if [ $rc -ne 0 ] || [ ! -L l ]; then echo "forward failed rc=$rc"; cat out; fi
run -p1 -R -i p >out 2>&1; rc=$?
# expected: l removed, status 0, nothing else
if [ $rc -ne 0 ] || [ -e l ] || [ -L l ] || [ -e l.orig ] || [ -L l.orig ] || [ -e l.rej ]; then
    echo "-R: rc=$rc"; cat out; ls -l; bad=1
fi
cd /; rm -rf "$D"
exit $bad
