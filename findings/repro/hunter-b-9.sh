#!/bin/sh
# C16: with -o FILE only FILE may be written, but a git rename section still removes the source file.
SB=${1:-/tmp/head_wt/_b/app/sb_patch}
D=$(mktemp -d /tmp/hunt_b/f9.XXXXXX) && cd "$D" || exit 2
printf 'l1\nl2\nl3\n' > f
cat > p.diff <<'P'
diff --git a/f b/g
similarity index 66%
rename from f
rename to g
--- a/f
+++ b/g
@@ -1,3 +1,3 @@
 l1
-l2
+L2
 l3
P
timeout 5 "$SB" -p1 -o out -i p.diff </dev/null > out.txt 2>&1; rc=$?
cat out.txt; echo "rc=$rc"; ls
if [ ! -e f ]; then echo "VIOLATED: -o out was given, yet f was removed"; cd /; rm -rf "$D"; exit 1; fi
cd /; rm -rf "$D"; exit 0
