#!/bin/sh
# C05 (and the repair 7af18d0 "recognise the removal of a file as previously applied" is incomplete):
# a patch which removes a file and whose only usable name is the Index: line (normal diff with an
# Index: header; or unified names with fewer components than -pN) is applied, but then neither
# -R restores the file nor is a second application recognised as previously applied:
# guess_filepath() falls back to patch.old_file_path for every Delete (and to new_file_path for
# every Add) even when that name is empty, never to the Index: name.
BIN=${1:-/tmp/head_wt/_b/app/sb_patch}
D=/tmp/hunt_i/f1.$$
rm -rf "$D"; mkdir -p "$D/t"; cd "$D/t" || exit 2
run() { timeout 5 setpriv --reuid=65534 --regid=65534 --clear-groups "$BIN" "$@" </dev/null; }
printf 'a\nb\nc\n' > f
cp f ../f.expected
diff f /dev/null | sed '1i Index: f' > ../p.diff     # "Index: f" + "1,3d0 < a < b < c"
chown -R 65534:65534 "$D"; chmod 777 "$D" "$D/t"
echo "--- patch:"; cat ../p.diff
echo "--- forward:"; run -f -i ../p.diff; rc1=$?; echo "rc=$rc1; tree: $(ls -A | tr '\n' ' ')"
echo "--- reverse (-R):"; run -f -R -i ../p.diff; rc2=$?; echo "rc=$rc2; tree: $(ls -A | tr '\n' ' ')"
bad=0
if [ "$rc1" = 0 ] && [ ! -e f ]; then
    # forward removed the file: -R has to bring it back
    if [ "$rc2" != 0 ] || ! cmp -s f ../f.expected; then
        echo "VIOLATION C05: forward application removed f (rc 0), -R of the same patch does not restore it (rc=$rc2)"
        bad=1
    fi
fi
echo "--- second forward application with -N (file is gone):"
rm -f f f.rej f.orig
run -N -i ../p.diff; rc3=$?; echo "rc=$rc3"
if [ "$rc3" = 2 ]; then echo "NOTE: second application with -N asks for a file name / ends with status 2 instead of 'previously applied'"; bad=1; fi
echo "--- same with a unified diff whose ---/+++ names have too few components for -p1 (only 'Index: x/f' is usable):"
rm -f f f.rej f.orig
printf 'a\nb\nc\n' > f; chown 65534:65534 f
printf 'Index: x/f\n--- f.old\n+++ f.new\n@@ -1,3 +0,0 @@\n-a\n-b\n-c\n' > ../p2.diff
run -f -p1 -i ../p2.diff; rc4=$?; echo "forward rc=$rc4; tree: $(ls -A | tr '\n' ' ')"
run -f -p1 -R -i ../p2.diff; rc5=$?; echo "reverse rc=$rc5; tree: $(ls -A | tr '\n' ' ')"
if [ "$rc4" = 0 ] && [ ! -e f ]; then
    if [ "$rc5" != 0 ] || ! cmp -s f ../f.expected; then echo "VIOLATION C05: unified variant: -R does not restore f (rc=$rc5)"; bad=1; fi
fi
cd /; rm -rf "$D"
exit $bad
