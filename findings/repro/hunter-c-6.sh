#!/bin/sh
# C11: a git section without hunks (mode change only; likewise a pure rename/copy or an empty-file creation) followed by a
# NON-git section for another file: the two are merged into one patch.  unified: g is patched AND gets f's new mode, f is
# left alone; normal: the second section is swallowed silently (exit 0).
P=${1:-/tmp/head_wt/_b/app/sb_patch}
D=$(mktemp -d /tmp/hunt_c/f6.XXXXXX) || exit 2; cd "$D" || exit 2
bad=0
printf 'a\nb\nc\n' > g.old; printf 'a\nB\nc\n' > g.new
printf 'diff --git a/f b/f\nold mode 100644\nnew mode 100755\n' > s1.diff
diff -u g.old g.new | sed -e '1s,.*,--- a/g,' -e '2s,.*,+++ b/g,' > s2u.diff
{ echo 'Index: a/g'; diff g.old g.new; } > s2n.diff
for k in u n; do
  mkdir sep_$k comb_$k
  for d in sep_$k comb_$k; do printf 'one\n' > $d/f; chmod 644 $d/f; cp g.old $d/g; chmod 644 $d/g; done
  (cd sep_$k; timeout 5 "$P" -p1 -i ../s1.diff </dev/null >/dev/null 2>&1; r1=$?; timeout 5 "$P" -p1 -i ../s2$k.diff </dev/null >/dev/null 2>&1; r2=$?; echo $((r1>r2?r1:r2)) > ../rc_sep_$k)
  cat s1.diff s2$k.diff > comb_$k.diff
  (cd comb_$k; timeout 5 "$P" -p1 -i ../comb_$k.diff </dev/null > ../out_$k 2>&1; echo $? > ../rc_comb_$k)
  s="$(cd sep_$k; stat -c '%a %n' f g; cat g)"; c="$(cd comb_$k; stat -c '%a %n' f g; cat g)"
  if [ "$s" != "$c" ] || [ "$(cat rc_sep_$k)" != "$(cat rc_comb_$k)" ]; then
    echo "VIOLATION ($k): separate runs (rc $(cat rc_sep_$k)):"; echo "$s"; echo "-- one stream (rc $(cat rc_comb_$k)):"; echo "$c"; cat out_$k; bad=1
  fi
done
cd /; rm -rf "$D"; exit $bad
