#!/bin/sh
# C16/C17 (incomplete fix f57c9dc "refuse to patch through a symbolic link"):
# a git patch that deletes a symbolic link (deleted file mode 120000), or -R of one that creates it,
# is exempt from the refusal and reads/writes THROUGH the link: the bystander it points at is rewritten
# (mtime changes; a read-only one is chmod'ed writable and back), and with a (mismatch) backup the link
# is moved to l.orig and replaced by a regular-file copy of the bystander.
SB=${1:-/tmp/head_wt/_b/app/sb_patch}
D=$(mktemp -d /tmp/hunt_e/f1.XXXXXX); chmod 777 "$D"; cd "$D" || exit 2
RUN="timeout 5"; [ "$(id -u)" = 0 ] && RUN="timeout 5 setpriv --reuid=65534 --regid=65534 --clear-groups"
printf 'bystander content\n' > by; chmod 600 by; touch -d '2001-01-01 00:00:00' by
ln -s by l
[ "$(id -u)" = 0 ] && chown -h 65534:65534 by l
cat > P <<'EOP'
diff --git a/l b/l
deleted file mode 120000
index 1234567..0000000
--- a/l
+++ /dev/null
@@ -1 +0,0 @@
-by
\ No newline at end of file
EOP
before=$(stat -c '%Y %a %s' by)
$RUN "$SB" -p1 --no-backup-if-mismatch -i P </dev/null; rc=$?
after=$(stat -c '%Y %a %s' by)
bad=0
echo "rc=$rc bystander before: $before after: $after; l is: $(stat -c %F l 2>/dev/null || echo gone)"
# correct outcomes: link removed (rc 0), or refusal leaving everything alone (rc 1). The bystander is never touched.
[ "$before" = "$after" ] || { echo "VIOLATION: bystander 'by' was rewritten through the link"; bad=1; }
# variant with the default mismatch backup: the link must still be a link (or be gone), never a regular file
rm -f l l.rej l.orig; ln -s by l; [ "$(id -u)" = 0 ] && chown -h 65534:65534 l
$RUN "$SB" -p1 -i P </dev/null >/dev/null 2>&1
if [ -e l ] && [ ! -L l ]; then echo "VIOLATION: link l was replaced by a regular file holding a copy of the bystander"; bad=1; fi
cd /; rm -rf "$D"
exit $bad
