#!/bin/sh
# Finding 5 (C03): a hunk whose last context line would lie behind the end of the file is rejected although its old side,
# with that one outer context line ignored (fuzz 1 <= -F 2), is in the file. The target lost its last line ("e"); GNU patch:
# "Hunk #1 succeeded at 2 with fuzz 1."  locator.cpp: "line + old_line_count > content.size()" also counts the lines fuzz ignores.
BIN=${1:-/tmp/head_wt/_b/app/sb_patch}
D=$(mktemp -d /tmp/hunt_f/f5.XXXXXX) || exit 2
trap 'rm -rf "$D"' EXIT
printf 'a\nb\nc\nd\n' > "$D/T"
printf -- '--- T\n+++ T\n@@ -2,4 +2,4 @@\n b\n-c\n+C\n d\n e\n' > "$D/p.diff"
chown -R 65534:65534 "$D"; chmod 777 "$D"
cd "$D" || exit 2
timeout 5 setpriv --reuid=65534 --regid=65534 --clear-groups "$BIN" -f -i p.diff T </dev/null 2>&1; RC=$?
echo "rc=$RC"; od -c T | head -2
if [ "$RC" = 0 ] && [ "$(cat T)" = "$(printf 'a\nb\nC\nd\n')" ]; then echo OK; exit 0; fi
echo "VIOLATION: hunk rejected though it fits with fuzz 1"; exit 1
