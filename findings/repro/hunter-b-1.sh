#!/bin/sh
# C04: git-format stream with two sections for the same file (e.g. `git format-patch -2 --stdout`):
# the hunk of the first section is reported as applied but is missing from the result, exit 0.
SB=${1:-/tmp/head_wt/_b/app/sb_patch}
D=$(mktemp -d /tmp/hunt_b/f1.XXXXXX) && cd "$D" || exit 2
printf 'l1\nl2\nl3\nl4\nl5\nl6\nl7\nl8\nl9\nl10\n' > f
printf 'l1\nl2\nL3\nl4\nl5\nl6\nl7\nL8\nl9\nl10\n' > expected
cat > p.diff <<'P'
diff --git a/f b/f
--- a/f
+++ b/f
@@ -1,6 +1,6 @@
 l1
 l2
-l3
+L3
 l4
 l5
 l6
diff --git a/f b/f
--- a/f
+++ b/f
@@ -5,6 +5,6 @@
 l5
 l6
 l7
-l8
+L8
 l9
 l10
P
timeout 5 "$SB" -p1 -i p.diff </dev/null > out.txt 2>&1; rc=$?
cat out.txt; echo "rc=$rc"
if [ $rc -eq 0 ] && ! cmp -s f expected && [ ! -e f.rej ]; then
  echo "VIOLATED: exit 0, no reject file, but hunk 'l3->L3' is not in f:"; cat f; cd /; rm -rf "$D"; exit 1
fi
cd /; rm -rf "$D"; exit 0
