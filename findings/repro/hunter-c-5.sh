#!/bin/sh
# C11: a context-diff section whose last hunk only deletes lines (diff -c omits the to-file part), followed by filler
# text that is merely indented (a commit message as printed by "git log", a quoted paragraph ...): the filler line is
# taken for a line of the omitted to-file part.  Result differs from applying the section alone.
P=${1:-/tmp/head_wt/_b/app/sb_patch}
D=$(mktemp -d /tmp/hunt_c/f5.XXXXXX) || exit 2; cd "$D" || exit 2
printf 'one\ntwo\nthree\nfour\n' > A; printf 'one\nthree\nfour\n' > B
diff -c A B | sed -e '1s,.*,*** f,' -e '2s,.*,--- f,' > sec.diff        # last hunk: "- two", to-file part omitted
{ cat sec.diff; printf '    Fix the frobnicator (indented commit message)\n\nSigned-off-by: A <a@b.c>\n'; } > stream.diff
mkdir alone comb; cp A alone/f; cp A comb/f
(cd alone; timeout 5 "$P" -i ../sec.diff </dev/null >out 2>&1); rc1=$?
(cd comb; timeout 5 "$P" -i ../stream.diff </dev/null >out 2>&1); rc2=$?
if [ $rc1 -eq $rc2 ] && cmp -s alone/f comb/f && [ "$(ls alone)" = "$(ls comb)" ]; then cd /; rm -rf "$D"; exit 0; fi
echo "VIOLATION: section alone rc=$rc1:"; cat alone/out; cat alone/f; echo "-- with trailing filler rc=$rc2:"; cat comb/out; cat comb/f; ls comb
cd /; rm -rf "$D"; exit 1
