#!/bin/sh
# C15 / C11: every git section keeps its patched result in an open temporary file until the end of the run
# (DeferredWriter), so a git-format patch touching more files than the descriptor limit (ulimit -n, 1024 by
# default on most systems) dies with "Too many open files", status 2, and nothing written - while --dry-run on the
# same state reports status 0 for every file, and applying the sections one at a time works.
BIN=${1:-/tmp/head_wt/_b/app/sb_patch}
D=/tmp/hunt_i/f4.$$
rm -rf "$D"; mkdir -p "$D/t"; cd "$D/t" || exit 2
N=1100
i=0
: > ../p.diff
while [ $i -lt $N ]; do
    n=$(printf 'f%04d' $i)
    printf 'a\nb\nc\n' > $n
    printf 'diff --git a/%s b/%s\nindex 111..222 100644\n--- a/%s\n+++ b/%s\n@@ -1,3 +1,3 @@\n a\n-b\n+B\n c\n' $n $n $n $n >> ../p.diff
    i=$((i+1))
done
chown -R 65534:65534 "$D"; chmod 777 "$D" "$D/t"
ulimit -n 1024
run() { timeout 20 setpriv --reuid=65534 --regid=65534 --clear-groups "$BIN" "$@" </dev/null; }
run -p1 --dry-run -i ../p.diff > ../dry.out 2>&1; rcd=$?
run -p1 -i ../p.diff > ../real.out 2>&1; rc=$?
patched=$(grep -l '^B$' f* 2>/dev/null | wc -l)
echo "git patch with $N sections, ulimit -n $(ulimit -n)"
echo "dry run: rc=$rcd, last line: $(tail -1 ../dry.out)"
echo "real run: rc=$rc, last line: $(tail -1 ../real.out)"
echo "files patched: $patched of $N"
bad=0
if [ "$rcd" != "$rc" ]; then echo "VIOLATION C15: --dry-run predicted status $rcd, the real run ended with $rc"; bad=1; fi
if [ "$patched" != "$N" ]; then echo "VIOLATION C11: the stream is not the sum of its sections ($patched of $N files patched)"; bad=1; fi
cd /; rm -rf "$D"
exit $bad
