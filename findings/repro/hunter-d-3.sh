#!/bin/sh
# C04/C01/C11: removing the last file of a directory whose parent is not writable: rmdir fails with EACCES,
# which is fatal (status 2) after the file is already gone; the rest of the input is not applied.
# Incomplete fix 47ed5ad ("a parent directory which can not be removed is no reason to give up"): only
# EINVAL/EBUSY/ENOTDIR/ENOENT were added, not EACCES/EPERM/EROFS.
SB=${1:-/tmp/head_wt/_b/app/sb_patch}
D=$(mktemp -d /tmp/hunt_d/f3.XXXXXX); chmod 777 "$D"; cd "$D" || exit 2
mkdir top top/d; printf 'a\n' > top/d/f; printf 'x\ny\n' > top/g
printf -- '--- d/f\n+++ /dev/null\n@@ -1 +0,0 @@\n-a\n--- g\n+++ g\n@@ -1,2 +1,2 @@\n x\n-y\n+Y\n' > top/p
chown -R 65534:65534 top; chmod 777 top/d; chmod 666 top/g; chmod 555 top      # d is writable, its parent is not
cd top
timeout 5 setpriv --reuid=65534 --regid=65534 --clear-groups "$SB" -p0 -i p >../out 2>&1 </dev/null; rc=$?
cd ..
bad=0
# expected: d/f removed, d left alone (it can not be removed), g patched, status 0
if [ $rc -ne 0 ] || [ -e top/d/f ] || [ "$(cat top/g)" != "x
Y" ]; then echo "rc=$rc"; cat out; echo "g:"; cat top/g; bad=1; fi
chmod 777 top; cd /; rm -rf "$D"
exit $bad
