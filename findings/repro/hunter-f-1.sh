#!/bin/sh
# Finding 1 (C03, messages): "Hunk #n FAILED at L" adds the net growth of the hunks applied before twice.
# A patch whose first hunk adds 3 lines and whose second hunk (stated at old line 20 / new line 23) does not fit:
# the hunk is looked for at line 23 of the output, the reject says @@ -23,3 ..., but the message says 26.
BIN=${1:-/tmp/head_wt/_b/app/sb_patch}
D=$(mktemp -d /tmp/hunt_f/f1.XXXXXX) || exit 2
trap 'rm -rf "$D"' EXIT
seq 1 30 > "$D/f"
cat > "$D/p.diff" <<'EOF'
--- f
+++ f
@@ -2,3 +2,6 @@
 2
 3
+3a
+3b
+3c
 4
@@ -20,3 +23,3 @@
 20
-XX
+YY
 22
EOF
chown -R 65534:65534 "$D"; chmod 777 "$D"; chmod 666 "$D"/*
cd "$D" || exit 2
OUT=$(timeout 5 setpriv --reuid=65534 --regid=65534 --clear-groups "$BIN" -f -i p.diff </dev/null 2>&1)
echo "$OUT"
echo "reject range line: $(grep '^@@' f.rej)"
if echo "$OUT" | grep -q 'Hunk #2 FAILED at 23\.'; then
    echo "OK: failed hunk reported at 23"; exit 0
fi
echo "VIOLATION: hunk stated at old line 20 (+3 lines added before = 23) is reported at another line"
exit 1
