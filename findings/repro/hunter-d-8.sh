#!/bin/sh
# C11 (borderline: same family as the recorded "hunk-less git section followed by a plain section"):
# a git BINARY section followed by a plain unified section for another file. The header scan of the binary
# section runs on into the next section and takes its ---/+++ lines; the binary message names the wrong
# file, and the plain section is left with its '@@' line only: "can't find file to patch" (question / status 2,
# or skipped with -f) although applied alone it patches f. A context or normal section after the binary one
# works (by accident: the scan never recognises them while it believes to be in a git header).
# Neighbour of fix bb68d2c (never start over from the git header of a binary patch).
SB=${1:-/tmp/head_wt/_b/app/sb_patch}
D=$(mktemp -d /tmp/hunt_d/f8.XXXXXX); chmod 777 "$D"; cd "$D" || exit 2
run() { chown -R 65534:65534 . ; timeout 5 setpriv --reuid=65534 --regid=65534 --clear-groups "$SB" "$@" </dev/null; }
printf 'a\nb\nc\n' > f; printf 'x' > bin
{ printf 'diff --git a/bin b/bin\nindex 1234567..89abcde 100644\nGIT binary patch\nliteral 4\nLc${NkU|;|M00aO5\n\nliteral 3\nKc${NkU}69V0ssI2\n\n'
  printf -- '--- f\n+++ f\n@@ -1,3 +1,3 @@\n a\n-b\n+B\n c\n'; } > p
run -f -i p >out 2>&1; rc=$?
bad=0
# expected (sum of the sections): bin refused (status 1), f patched
if [ $rc -ne 1 ] || [ "$(cat f)" != "a
B
c" ]; then echo "rc=$rc"; cat out; bad=1; fi
cd /; rm -rf "$D"
exit $bad
