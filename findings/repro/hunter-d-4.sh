#!/bin/sh
# C12/C01: names of a git section which has no ---/+++ lines (mode change, pure rename/copy, empty file) are only
# found if the 'diff --git' line carries the literal prefixes a/ and b/. Output of `git diff --no-prefix`
# (the only git output for which -p0 is right) and of `git -c diff.mnemonicPrefix=true diff` (i/ w/ c/ o/) is
# not understood; with -p0 the names of 'rename from/to' get an invented a/ or b/ in front.
# Neighbours of fixes b566a34 (end of a git header name) and 65e0d34 (rename names with -p0).
SB=${1:-/tmp/head_wt/_b/app/sb_patch}
D=$(mktemp -d /tmp/hunt_d/f4.XXXXXX); chmod 777 "$D"; cd "$D" || exit 2
run() { chown -R 65534:65534 . ; timeout 5 setpriv --reuid=65534 --regid=65534 --clear-groups "$SB" "$@" </dev/null; }
bad=0
# (a) git diff --no-prefix, change of mode, -p0
printf 'a\n' > f; chmod 644 f
printf 'diff --git f f\nold mode 100644\nnew mode 100755\n' > p
run -f -p0 -i p >out 2>&1; rc=$?
if [ $rc -ne 0 ] || [ ! -x f ]; then echo "(a) rc=$rc"; cat out; bad=1; fi
# (b) git diff --no-prefix, rename, -p0
printf 'a\n' > f; rm -f g
printf 'diff --git f g\nsimilarity index 100%%\nrename from f\nrename to g\n' > p
run -f -p0 -i p >out 2>&1; rc=$?
if [ $rc -ne 0 ] || [ -e f ] || [ ! -e g ]; then echo "(b) rc=$rc"; cat out; bad=1; fi
# (c) mnemonic prefixes, change of mode, -p1
rm -f g; printf 'a\n' > f; chmod 644 f
printf 'diff --git i/f w/f\nold mode 100644\nnew mode 100755\n' > p
run -f -p1 -i p >out 2>&1; rc=$?
if [ $rc -ne 0 ] || [ ! -x f ]; then echo "(c) rc=$rc"; cat out; bad=1; fi
# control: same with a/ b/ works
printf 'a\n' > f; chmod 644 f
printf 'diff --git a/f b/f\nold mode 100644\nnew mode 100755\n' > p
run -f -p1 -i p >out 2>&1; [ -x f ] || echo "control failed"
cd /; rm -rf "$D"
exit $bad
