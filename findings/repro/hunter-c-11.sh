#!/bin/sh
# C06: (a) re-running a patch that deleted a file: with -N or -t patch asks "File to patch:" on /dev/tty (exit 2 without a
# tty) instead of reporting the hunks as ignored (exit 1) resp. recreating the file.  (b) re-running a git rename patch
# with -t reverses the content but leaves the file under its new name, so the original tree is not restored.
P=${1:-/tmp/head_wt/_b/app/sb_patch}
D=$(mktemp -d /tmp/hunt_c/f11.XXXXXX) || exit 2; cd "$D" || exit 2
bad=0
printf -- '--- a/old.txt\n+++ /dev/null\n@@ -1,2 +0,0 @@\n-bye\n-now\n' > del.diff
mkdir n; (cd n; printf 'bye\nnow\n' > old.txt; timeout 5 "$P" -p1 -i ../del.diff </dev/null >/dev/null; timeout 5 "$P" -N -p1 -i ../del.diff </dev/null > ../out_n 2>&1; echo $? > ../rc_n)
[ "$(cat rc_n)" = 1 ] && grep -q ignored out_n || { echo "VIOLATION (a) -N: rc=$(cat rc_n)"; cat out_n; bad=1; }
mkdir t; (cd t; printf 'bye\nnow\n' > old.txt; timeout 5 "$P" -p1 -i ../del.diff </dev/null >/dev/null; timeout 5 "$P" -t -p1 -i ../del.diff </dev/null > ../out_t 2>&1; echo $? > ../rc_t)
[ "$(cat rc_t)" = 0 ] && [ "$(cat t/old.txt 2>/dev/null)" = "$(printf 'bye\nnow')" ] || { echo "VIOLATION (a) -t: rc=$(cat rc_t), old.txt not restored"; cat out_t; bad=1; }
printf 'diff --git a/from.txt b/to.txt\nsimilarity index 66%%\nrename from from.txt\nrename to to.txt\n--- a/from.txt\n+++ b/to.txt\n@@ -1,3 +1,3 @@\n one\n-two\n+TWO\n three\n' > ren.diff
mkdir r; (cd r; printf 'one\ntwo\nthree\n' > from.txt; timeout 5 "$P" -p1 -i ../ren.diff </dev/null >/dev/null; timeout 5 "$P" -t -p1 -i ../ren.diff </dev/null > ../out_r 2>&1; echo $? > ../rc_r)
[ -f r/from.txt ] && [ ! -e r/to.txt ] || { echo "VIOLATION (b) rename -t: rc=$(cat rc_r), tree is: $(ls r)"; cat out_r; bad=1; }
cd /; rm -rf "$D"; exit $bad
