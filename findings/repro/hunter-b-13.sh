#!/bin/sh
# C04 (minor): a refused section without hunks (git mode change / pure rename onto a read-only file with
# --read-only=fail, or onto a directory) says "0 out of 0 hunk ignored -- saving rejects to file f.rej" and
# creates an EMPTY f.rej: a reject file exists although no hunk failed.
SB=${1:-/tmp/head_wt/_b/app/sb_patch}
D=$(mktemp -d /tmp/hunt_b/f13.XXXXXX) && cd "$D" || exit 2
printf 'a\n' > f; chmod 444 f
printf 'diff --git a/f b/f\nold mode 100444\nnew mode 100755\n' > p.diff
timeout 5 "$SB" -p1 --read-only=fail -i p.diff </dev/null > out.txt 2>&1; rc=$?
cat out.txt; echo "rc=$rc"; ls -l
if [ -e f.rej ]; then echo "VIOLATED: f.rej exists ($(wc -c < f.rej) bytes) although the section has no hunk"; chmod 644 f; cd /; rm -rf "$D"; exit 1; fi
chmod 644 f; cd /; rm -rf "$D"; exit 0
