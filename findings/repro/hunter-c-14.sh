#!/bin/sh
# C11: stream = git section for f1, then a section whose target cannot be found.  Even with -f/-t patch asks
# "File to patch:" on /dev/tty; without a tty the run aborts (exit 2) and the deferred write of the git section,
# already reported as "patching file f1", is lost.  Separate runs patch f1.
P=${1:-/tmp/head_wt/_b/app/sb_patch}
D=$(mktemp -d /tmp/hunt_c/f14.XXXXXX) || exit 2; cd "$D" || exit 2
mkdir s c; for k in s c; do printf 'one\ntwo\n' > $k/f1; done
printf 'diff --git a/f1 b/f1\n--- a/f1\n+++ b/f1\n@@ -1,2 +1,2 @@\n one\n-two\n+TWO\n' > s1.diff
printf -- '--- a/missing\n+++ b/missing\n@@ -1,2 +1,2 @@\n one\n-two\n+TWO\n' > s2.diff
cat s1.diff s2.diff > comb.diff
(cd s; timeout 5 "$P" -f -p1 -i ../s1.diff </dev/null >/dev/null 2>&1; timeout 5 "$P" -f -p1 -i ../s2.diff </dev/null >/dev/null 2>&1)
(cd c; timeout 5 "$P" -f -p1 -i ../comb.diff </dev/null > ../out 2>&1)
if cmp -s s/f1 c/f1; then cd /; rm -rf "$D"; exit 0; fi
echo "VIOLATION: f1 after separate runs:"; cat s/f1; echo "-- f1 after the one stream:"; cat c/f1; cat out
cd /; rm -rf "$D"; exit 1
