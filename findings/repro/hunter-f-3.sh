#!/bin/sh
# Finding 3 (C07): signed integer overflow in parser.cpp:397 (parse_git_extended_info: "strip - 1") with -p-2147483648 and
# a git header which has a rename/copy line. UBSan: "signed integer overflow: -2147483648 - 1 cannot be represented in type 'int'".
# Seen without a sanitizer as well: every negative strip count means "base name", so -p-2147483647 carries out the rename,
# but -p-2147483648 wraps around to INT_MAX, strips the whole name and can not find the file.
BIN=${1:-/tmp/head_wt/_b/app/sb_patch}
D=$(mktemp -d /tmp/hunt_f/f3.XXXXXX) || exit 2
trap 'rm -rf "$D"' EXIT
printf 'diff --git a/x b/y\nsimilarity index 100%%\nrename from x\nrename to y\n' > "$D/g.diff"
chown -R 65534:65534 "$D"; chmod 777 "$D"
cd "$D" || exit 2
run() { timeout 5 setpriv --reuid=65534 --regid=65534 --clear-groups "$BIN" "$@" </dev/null 2>&1; }
echo hi > x; chown 65534 x
O1=$(run -f -p-2147483647 -i g.diff); R1=$?; L1=$(ls | tr '\n' ' '); rm -f x y
echo hi > x; chown 65534 x
O2=$(run -f -p-2147483648 -i g.diff); R2=$?; L2=$(ls | tr '\n' ' ')
echo "-p-2147483647: rc=$R1 files: $L1"; echo "$O1" | head -3
echo "-p-2147483648: rc=$R2 files: $L2"; echo "$O2" | head -3
if echo "$O2" | grep -q 'runtime error'; then echo "VIOLATION: undefined behaviour reported by the sanitizer"; exit 1; fi
if [ "$R1" != "$R2" ] || [ "$L1" != "$L2" ]; then echo "VIOLATION: INT_MIN - 1 wrapped around (strip count behaves as INT_MAX)"; exit 1; fi
echo "OK"; exit 0
