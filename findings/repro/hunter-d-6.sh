#!/bin/sh
# C06 (and C11): a patch which removes a file, run a second time with -N, is not "recognised as previously applied,
# hunks ignored, status 1": patch asks "File to patch:" on the terminal (status 2 without one) and gives up on the
# rest of the input. -f and -t skip it since fix 9d35772, -N (which also means "do not ask, go forward") was left out.
# With -t the removed file is not brought back either (the patch is skipped, not applied in reverse).
SB=${1:-/tmp/head_wt/_b/app/sb_patch}
D=$(mktemp -d /tmp/hunt_d/f6.XXXXXX); chmod 777 "$D"; cd "$D" || exit 2
run() { chown -R 65534:65534 . ; timeout 5 setpriv --reuid=65534 --regid=65534 --clear-groups "$SB" "$@" </dev/null; }
bad=0
printf 'a\nb\n' > f; printf 'x\ny\n' > g
printf -- '--- f\n+++ /dev/null\n@@ -1,2 +0,0 @@\n-a\n-b\n--- g\n+++ g\n@@ -1,2 +1,2 @@\n x\n-y\n+Y\n' > p
run -i p >out 2>&1 || { echo "first run failed"; cat out; }
# second run: f is gone, g is patched already
run -N -i p >out 2>&1; rc=$?
if [ $rc -ne 1 ] || grep -q 'File to patch' out || ! grep -q 'g' out; then echo "-N: rc=$rc (expected 1, no question, g looked at)"; cat out; bad=1; fi
cd /; rm -rf "$D"
exit $bad
