#!/bin/sh
# C13: "many rejected hunks per file": when a patch has two sections for the same file (or -r names
# one reject file for several files) and a hunk fails in each, every section truncates the reject
# file again, so the reject file ends up carrying only the LAST section's failed hunk although
# "saving rejects to file f.rej" was announced for both.
# exit 0 = property holds, 1 = violated.   usage: finding_3.sh /path/to/sb_patch
P=${1:-/tmp/head_wt/_b/app/sb_patch}
W=$(mktemp -d /tmp/hunt_a/f3.XXXXXX) || exit 2
cd "$W" || exit 2
printf '1\n2\n3\n4\n5\n6\n7\n8\n9\n10\n' > f
printf -- '--- f\n+++ f\n@@ -2 +2 @@\n-TWO\n+two\n--- f\n+++ f\n@@ -8 +8 @@\n-EIGHT\n+eight\n' > p.diff
timeout 5 "$P" -f -F0 -i p.diff </dev/null; echo "exit $?"
echo "--- f.rej:"; cat f.rej
rc=0
grep -q '^-TWO$' f.rej   || { echo "VIOLATION: failed hunk -TWO/+two is missing from f.rej"; rc=1; }
grep -q '^-EIGHT$' f.rej || { echo "VIOLATION: failed hunk -EIGHT/+eight is missing from f.rej"; rc=1; }
# same with -r and two different files
printf '1\n2\n3\n' > a; printf '1\n2\n3\n' > b
printf -- '--- a\n+++ a\n@@ -2 +2 @@\n-TWO\n+two\n--- b\n+++ b\n@@ -2 +2 @@\n-ZWEI\n+zwei\n' > q.diff
timeout 5 "$P" -f -F0 -r all.rej -i q.diff </dev/null >/dev/null 2>&1
echo "--- all.rej:"; cat all.rej
grep -q '^-TWO$' all.rej || { echo "VIOLATION (-r): failed hunk of file a is missing from all.rej"; rc=1; }
cd /; rm -rf "$W"
exit $rc
