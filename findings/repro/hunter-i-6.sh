#!/bin/sh
# C17 / C16 / C18: the file named with -o is exempt from the "not a regular file" refusal, but not from the backup:
# when a backup is due (-b, or by default any hunk applied with an offset) Backup::make_backup_for() renames whatever
# is at that path. A directory named by -o is moved to DIR.orig (with everything in it) and a regular file with
# the directory's mode bits takes its place, exit status 0. (Run unprivileged, '-o /dev/null' - the usual way to try a
# patch out - ends with "Unable to rename /dev/null to /dev/null.orig", status 2; a privileged user would lose /dev/null.)
# Without a backup the same command fails cleanly: "Unable to open file out: Is a directory", status 2.
BIN=${1:-/tmp/head_wt/_b/app/sb_patch}
D=/tmp/hunt_i/f6.$$
rm -rf "$D"; mkdir -p "$D/t/out"; cd "$D/t" || exit 2
run() { timeout 5 setpriv --reuid=65534 --regid=65534 --clear-groups "$BIN" "$@" </dev/null; }
echo precious > out/inner
printf 'x\na\nb\nc\n' > f
printf -- '--- f\n+++ f\n@@ -1,3 +1,3 @@\n a\n-b\n+B\n c\n' > ../p.diff     # applies with offset 1: mismatch backup
chown -R 65534:65534 "$D"; chmod 777 "$D" "$D/t"
echo "--- before:"; ls -lA
echo "--- run: -o out   (out is a directory)"; run -o out -i ../p.diff; rc=$?; echo "rc=$rc"
echo "--- after:"; ls -lA
bad=0
if [ ! -d out ] || [ ! -f out/inner ]; then
    echo "VIOLATION C17/C16: the directory named by -o was not refused but moved away (now: $(ls -d out* | tr '\n' ' ')), status $rc"
    bad=1
fi
cd /; rm -rf "$D"
exit $bad
