#!/bin/sh
# C19 (minor): a numeric option argument with leading white space (" 1", "\t1", "\n1") is not a
# number, yet -p/--strip and -F/--fuzz accept it (std::stoi skips leading white space) and the
# file is patched, instead of "strip count  1 is not a number", exit status 2, nothing touched.
# Trailing white space ("1 ") and every other malformed value are rejected as they should be.
# exit 0 = property holds, 1 = violated.   usage: finding_8.sh /path/to/sb_patch
P=${1:-/tmp/head_wt/_b/app/sb_patch}
W=$(mktemp -d /tmp/hunt_a/f8.XXXXXX) || exit 2
cd "$W" || exit 2
printf -- '--- a/f\n+++ b/f\n@@ -1 +1 @@\n-a\n+b\n' > p.diff
rc=0
TAB=$(printf '\t'); NL='
'
for opt in -p --strip -F --fuzz; do
  for v in " 1" "${TAB}1" "${NL}1"; do
    printf 'a\n' > f
    timeout 5 "$P" -f $opt "$v" f p.diff </dev/null >out.txt 2>&1; e=$?
    if [ $e -ne 2 ] || [ "$(cat f)" != a ]; then
        printf 'VIOLATION: %s with argument "%s": exit %s, file now "%s"\n' "$opt" "$(printf %s "$v" | od -An -c | tr -s ' ')" $e "$(cat f)"; rc=1
    fi
  done
done
# control: trailing blank is rejected
printf 'a\n' > f; timeout 5 "$P" -f -p "1 " f p.diff </dev/null >out.txt 2>&1; echo "control -p '1 ': exit $? ($(head -1 out.txt))"
cd /; rm -rf "$W"
exit $rc
