#!/bin/bash
# C04 (no hunk is lost or half applied) / C02 (output = input with the applied hunks replaced):
# a patch taken for a removal (explicit '+++ /dev/null', or merely inferred from a first hunk
# '@@ -1 +0,0 @@' as 'diff -U0' writes it) whose first hunk empties the file while a later hunk fails.
# Hunk #1 is reported as applied and only the later hunk goes to the rejects, but since 4266f2e the file
# is neither removed nor written: it still holds the line which hunk #1 removed.
BIN=${1:-/tmp/head_wt/_b/app/sb_patch}
D=/tmp/hunt_j/f1_$$; rm -rf "$D"; mkdir -p "$D/a" "$D/b"; trap 'rm -rf "$D"' EXIT
# case a: genuine 'diff -U0' of "b,x,a" -> "x,Z" (no removal of the file at all), applied to a file "b"
printf 'b\n' > "$D/a/f"
printf -- '--- f\n+++ f\n@@ -1 +0,0 @@\n-b\n@@ -3 +2 @@\n-a\n+Z\n' > "$D/a/p"
# case b: explicit removal in two hunks
printf 'a\n' > "$D/b/f"
printf -- '--- f\n+++ /dev/null\n@@ -1 +0,0 @@\n-a\n@@ -5 +0,0 @@\n-z\n' > "$D/b/p"
chown -R 65534:65534 "$D"; chmod -R 777 "$D"
bad=0
for c in a b; do
  orig=$(cat "$D/$c/f")
  out=$(cd "$D/$c" && timeout 5 setpriv --reuid=65534 --regid=65534 --clear-groups "$BIN" -f -i p </dev/null 2>&1); rc=$?
  echo "[$c] $out [exit $rc]"
  [ $rc -eq 1 ] || { echo "[$c] unexpected status"; bad=1; continue; }
  nrej=$(grep -c '^@@' "$D/$c/f.rej" 2>/dev/null); nrej=${nrej:-0}
  # hunk #1 must be either among the rejects (2 hunks there) or applied (its line gone from f)
  if [ "$nrej" = 1 ] && [ -e "$D/$c/f" ] && [ "$(cat "$D/$c/f")" = "$orig" ]; then
    echo "VIOLATION [$c]: hunk #1 reported applied and not among the rejects, but f is unchanged ('$orig')"; bad=1
  fi
done
exit $bad
