#!/bin/bash
# C18 (a backup is made whenever one is due): a removal patch which fails on an existing empty file.
# With -b (and also by default, as a hunk was rejected) a backup f.orig is due and must hold the bytes
# of f before the run (empty). The same failing hunk in a patch which is no removal does make f.orig.
BIN=${1:-/tmp/head_wt/_b/app/sb_patch}
D=/tmp/hunt_j/f2_$$; rm -rf "$D"; mkdir -p "$D/del" "$D/chg"; trap 'rm -rf "$D"' EXIT
: > "$D/del/f"; : > "$D/chg/f"
printf -- '--- f\n+++ /dev/null\n@@ -1 +0,0 @@\n-a\n' > "$D/del/p"
printf -- '--- f\n+++ f\n@@ -1 +1 @@\n-a\n+b\n' > "$D/chg/p"
chown -R 65534:65534 "$D"; chmod -R 777 "$D"
bad=0
for c in chg del; do
  out=$(cd "$D/$c" && timeout 5 setpriv --reuid=65534 --regid=65534 --clear-groups "$BIN" -f -b -i p </dev/null 2>&1); rc=$?
  echo "[$c] $out [exit $rc]"; ls "$D/$c"
  [ $rc -eq 1 ] || bad=1
  if [ ! -e "$D/$c/f.orig" ]; then echo "VIOLATION: [$c] -b given, hunk rejected, but no backup f.orig"; bad=1; fi
done
exit $bad
