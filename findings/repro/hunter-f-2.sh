#!/bin/sh
# Finding 2 (C02 / C14 / C20): a line without a newline after it which does not stay the last line of the output
# is fused with the line written after it.
#  a) file "a\nb\nc" (no final newline), patch appends "d" after "c" (context line c is fuzzed away, or -l, or no context):
#     output is "a\nb\ncd\n" - the lines "c" and "d" are gone, a line "cd" which is in neither file appears. GNU patch: "a\nb\nc\nd\n".
#  b) with -D and an insertion without context after "c" the directive lands on the same line: "c#ifdef SYM".
BIN=${1:-/tmp/head_wt/_b/app/sb_patch}
D=$(mktemp -d /tmp/hunt_f/f2.XXXXXX) || exit 2
trap 'rm -rf "$D"' EXIT
cat > "$D/p1.diff" <<'EOF'
--- T
+++ T
@@ -3 +3,2 @@
 c
+d
EOF
cat > "$D/p2.diff" <<'EOF'
--- T
+++ T
@@ -1,3 +1,4 @@
 a
 b
 c
+d
EOF
cat > "$D/p3.diff" <<'EOF3'
--- T
+++ T
@@ -3,0 +4 @@
+d
EOF3
chown -R 65534:65534 "$D"; chmod 777 "$D"
cd "$D" || exit 2
run() { timeout 5 setpriv --reuid=65534 --regid=65534 --clear-groups "$BIN" "$@" </dev/null 2>&1; }
bad=0
check() { # name, expected-regex-of-lines
    printf '%s: ' "$1"; od -c T | sed -n 1,2p | tr -s ' ' | tr '\n' ' '; echo
    if grep -qx 'c' T && grep -qx 'd' T; then echo "   ok: c and d are lines of their own"; else echo "   VIOLATION: line c and line d were fused"; bad=1; fi
}
printf 'a\nb\nc' > T; chown 65534 T; run -f -i p1.diff T; check "fuzz 1, context c dropped"
printf 'a\nb\nc' > T; chown 65534 T; run -f -l -i p2.diff T; check "-l, context matches ignoring the missing newline"
printf 'a\nb\nc' > T; chown 65534 T; run -f -D SYM -i p3.diff T; cat T
if grep -q '^#ifdef SYM$' T; then echo "   ok: directive on a line of its own"; else echo "   VIOLATION: #ifdef is not on a line of its own"; bad=1; fi
exit $bad
