#!/bin/sh
# C04/C17: git patch creating a symbolic link at a path taken by a regular file with other content:
# the hunk is reported FAILED (exit 1), yet the file is moved to l.orig and replaced by a link whose
# "target" is the old content of the file.
BIN="${1:?usage: $0 /path/to/sb_patch}"
D=/tmp/hunt_g/f1.$$
rm -rf "$D"; mkdir -p "$D"; cd "$D" || exit 2
printf 'hello\nworld\n' > l
cat > p.diff <<'EOP'
diff --git a/l b/l
new file mode 120000
index 0000000..1de5659
--- /dev/null
+++ b/l
@@ -0,0 +1 @@
+target
\ No newline at end of file
EOP
chown -R 65534:65534 "$D"; chmod 777 "$D"
timeout 5 setpriv --reuid=65534 --regid=65534 --clear-groups "$BIN" -p1 -i p.diff </dev/null
rc=$?
echo "exit status $rc"; ls -l
bad=0
if [ -L l ]; then echo "VIOLATION: l was a regular file and is now a symbolic link to '$(readlink l)' although its only hunk was rejected"; bad=1
elif [ "$(cat l)" != "$(printf 'hello\nworld\n')" ]; then echo "VIOLATION: content of l changed"; bad=1; fi
cd /; rm -rf "$D"
exit $bad
