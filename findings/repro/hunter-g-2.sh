#!/bin/sh
# C16 (neighbour of fix ce609ef "do not write rejects or an empty backup through a symbolic link"):
# a reject file / an empty backup whose name is taken by a HARD link to an unrelated file is opened with
# truncation: the unrelated file is overwritten with the rejects, or emptied.
BIN="${1:?usage: $0 /path/to/sb_patch}"
D=/tmp/hunt_g/f2.$$
rm -rf "$D"; mkdir -p "$D/a" "$D/b"; bad=0
run() { ( cd "$1" && shift && timeout 5 setpriv --reuid=65534 --regid=65534 --clear-groups "$BIN" "$@" </dev/null ); }
# (a) f.rej is a hard link to other/precious
cd "$D/a"; mkdir other; echo precious > other/precious; ln other/precious f.rej
printf 'one\ntwo\nthree\n' > f
printf -- '--- a/f\n+++ b/f\n@@ -1,3 +1,3 @@\n uno\n-dos\n+2\n tres\n' > ../a.diff
chown -R 65534:65534 "$D"; chmod 777 "$D" "$D/a" "$D/b"
run "$D/a" -f -p1 -i ../a.diff; echo "exit status $?"
if [ "$(cat other/precious)" != precious ]; then echo "VIOLATION (a): bystander other/precious now holds:"; sed 's/^/    /' other/precious; bad=1; fi
# (b) new.orig is a hard link to other/precious; creating new with -b makes an empty backup
cd "$D/b"; mkdir other; echo precious > other/precious; ln other/precious new.orig
printf -- '--- /dev/null\n+++ b/new\n@@ -0,0 +1 @@\n+hello\n' > ../b.diff
chown -R 65534:65534 "$D"
run "$D/b" -b -p1 -i ../b.diff; echo "exit status $?"
if [ "$(cat other/precious)" != precious ]; then echo "VIOLATION (b): bystander other/precious was emptied (size $(stat -c %s other/precious))"; bad=1; fi
cd /; rm -rf "$D"
exit $bad
