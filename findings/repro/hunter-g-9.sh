#!/bin/sh
# C16 / C04: -R of a git "copy from src / copy to f" section reads the copy f, applies the hunks backwards and WRITES THE
# RESULT OVER src (the file the copy was made from). If src has moved on since (or f is something else and the hunk is
# rejected) the content of src is lost: (a) exit 0, a line of src silently gone; (b) hunk rejected, src replaced by f.
# (Known item 11 only says that -R of a copy leaves both files; here the untouched side is overwritten.)
BIN="${1:?usage: $0 /path/to/sb_patch}"
D=/tmp/hunt_g/f9.$$
rm -rf "$D"; mkdir -p "$D/a" "$D/b"
cat > "$D/p.diff" <<'EOP'
diff --git a/src b/f
similarity index 80%
copy from src
copy to f
index 1..2
--- a/src
+++ b/f
@@ -1,3 +1,3 @@
 one
-two
+2
 three
EOP
printf 'one\ntwo\nthree\nlater work on src\n' > "$D/a/src"; printf 'one\n2\nthree\n' > "$D/a/f"
printf 'one\ntwo\nthree\nlater work on src\n' > "$D/b/src"; printf 'completely\ndifferent\n' > "$D/b/f"
chown -R 65534:65534 "$D"; chmod 777 "$D" "$D/a" "$D/b"
bad=0
for t in a b; do
  ( cd "$D/$t" && timeout 5 setpriv --reuid=65534 --regid=65534 --clear-groups "$BIN" -p1 -R -f --no-backup-if-mismatch -i ../p.diff </dev/null ); echo "($t) exit status $?"
  if ! grep -q 'later work on src' "$D/$t/src"; then echo "VIOLATION ($t): src was overwritten, it now holds:"; sed 's/^/    /' "$D/$t/src"; bad=1; fi
done
rm -rf "$D"
exit $bad
