#!/bin/sh
# C17: --read-only=fail does not refuse a read-only file when the git patch renames it (the check looks at the new name):
# the read-only file is removed and its content written, changed, under the new name, exit 0.
P=${1:-/tmp/head_wt/_b/app/sb_patch}
D=$(mktemp -d /tmp/hunt_c/f10.XXXXXX) || exit 2; cd "$D" || exit 2
printf 'one\ntwo\nthree\n' > from; chmod 444 from
printf 'diff --git a/from b/to\nsimilarity index 66%%\nrename from from\nrename to to\n--- a/from\n+++ b/to\n@@ -1,3 +1,3 @@\n one\n-two\n+TWO\n three\n' > p.diff
timeout 5 "$P" --read-only=fail -p1 -i p.diff </dev/null; rc=$?
if [ $rc -ne 0 ] && [ -f from ] && [ "$(stat -c %a from)" = 444 ] && [ "$(cat from)" = "$(printf 'one\ntwo\nthree')" ] && [ ! -e to ]; then cd /; rm -rf "$D"; exit 0; fi
echo "VIOLATION: rc=$rc; the read-only file should have been refused and left alone:"; ls -l
cd /; rm -rf "$D"; exit 1
