#!/bin/sh
# C12 ("/dev/null is never stripped or opened") - regression of 7af18d0: guess_filepath() now returns
# patch.old_file_path for every Delete without looking at what it is. A removal-shaped hunk (new range 0,0)
# whose old name is /dev/null and whose new name does not exist makes /dev/null the file to patch:
# "File /dev/null is not a regular file -- refusing to patch", rejects go to /dev/null.rej (created when
# run by root; for anyone else the run dies with status 2 and later sections are lost).
# Before 7af18d0 this was "can't find file to patch ... Skipping patch", status 1, next section applied.
BIN=${1:-/tmp/head_wt/_b/app/sb_patch}
D=/tmp/hunt_i/f3.$$
rm -rf "$D"; mkdir -p "$D/t"; cd "$D/t" || exit 2
run() { timeout 5 setpriv --reuid=65534 --regid=65534 --clear-groups "$BIN" "$@" </dev/null; }
printf 'a\nb\nc\n' > g
printf -- '--- /dev/null\n+++ gone\n@@ -1,2 +0,0 @@\n-x\n-y\n--- g\n+++ g\n@@ -1,3 +1,3 @@\n a\n-b\n+B\n c\n' > ../p.diff
chown -R 65534:65534 "$D"; chmod 777 "$D" "$D/t"
echo "--- run:"; run -f -i ../p.diff > ../out 2>&1; rc=$?; cat ../out; echo "rc=$rc"
echo "g: $(tr '\n' ' ' < g)"
bad=0
if grep -q '/dev/null' ../out; then echo "VIOLATION C12: /dev/null was selected as the file to patch (and /dev/null.rej as its reject file)"; bad=1; fi
if ! grep -q B g; then echo "VIOLATION: the following section (for g) was not applied, status $rc"; bad=1; fi
[ -e /dev/null.rej ] && echo "WARNING: /dev/null.rej exists"
cd /; rm -rf "$D"
exit $bad
