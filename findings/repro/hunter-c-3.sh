#!/bin/sh
# C01/C05 (git format): a file that the patch empties but does NOT delete (no "deleted file mode", +++ b/f) is removed;
# mirror: -R of a patch that fills an existing empty file removes it instead of leaving it empty.
P=${1:-/tmp/head_wt/_b/app/sb_patch}
D=$(mktemp -d /tmp/hunt_c/f3.XXXXXX) || exit 2; cd "$D" || exit 2
bad=0
cat > p.diff <<'EOP'
diff --git a/f b/f
index 587be6b..e69de29 100644
--- a/f
+++ b/f
@@ -1 +0,0 @@
-x
EOP
mkdir w1; printf 'x\n' > w1/f
(cd w1; timeout 5 "$P" -p1 -i ../p.diff </dev/null); rc=$?
[ $rc -eq 0 ] && [ -f w1/f ] && [ ! -s w1/f ] || { echo "VIOLATION fwd: rc=$rc, f should exist and be empty:"; ls -la w1; bad=1; }
cat > q.diff <<'EOP'
diff --git a/f b/f
index e69de29..587be6b 100644
--- a/f
+++ b/f
@@ -0,0 +1 @@
+x
EOP
mkdir w2; printf 'x\n' > w2/f
(cd w2; timeout 5 "$P" -R -p1 -i ../q.diff </dev/null); rc=$?
[ $rc -eq 0 ] && [ -f w2/f ] && [ ! -s w2/f ] || { echo "VIOLATION -R: rc=$rc, f should exist and be empty:"; ls -la w2; bad=1; }
cd /; rm -rf "$D"; exit $bad
