#!/bin/bash
# Removing d/f with -b -B pre. : the backup goes to pre.d/f, d/f is gone, so the now empty d must be removed
# (as it is without -b). Observed: d is left behind empty.
BIN="${1:-/tmp/head_wt/_b/app/sb_patch}"
W="$(mktemp -d /tmp/hunt_k_f3.XXXXXX)"
trap 'rm -rf "$W"' EXIT
chmod 777 "$W"
run() { ( cd "$W" && timeout 5 setpriv --reuid=65534 --regid=65534 --clear-groups "$BIN" "$@" </dev/null ); }
own() { chown -R 65534:65534 "$W"; chmod -R a+rwX "$W"; }
mkdir "$W/d"; printf 'a\nb\nc\n' > "$W/d/f"
printf -- '--- d/f\n+++ /dev/null\n@@ -1,3 +0,0 @@\n-a\n-b\n-c\n' > "$W/p.diff"
own
run -p0 -b -B pre. -i p.diff > "$W/log" 2>&1; rc=$?
echo "exit=$rc"; cat "$W/log"; ( cd "$W" && find . | sort )
if [ "$rc" = 0 ] && [ ! -e "$W/d/f" ] && [ -d "$W/d" ] && [ -z "$(ls -A "$W/d")" ]; then
  echo "VIOLATED: file removed but its empty parent directory d is left"; exit 1
fi
echo holds; exit 0
