#!/bin/sh
# C04: a later hunk whose stated line number is above the parser's limit (2^61) is silently taken for
# "trailing garbage": it is neither applied nor rejected, nothing is said, exit 0.
# (The same number in the FIRST hunk gives "Only garbage was found", exit 2; 2^61-1 is accepted and the hunk applied by offset.)
SB=${1:-/tmp/head_wt/_b/app/sb_patch}
D=$(mktemp -d /tmp/hunt_b/f11.XXXXXX) && cd "$D" || exit 2
printf 'l1\nl2\nl3\nl4\nl5\nl6\nl7\nl8\nl9\nl10\n' > f
cat > p.diff <<'P'
--- f
+++ f
@@ -1,2 +1,2 @@
-l1
+X1
 l2
@@ -2305843009213693952,2 +2305843009213693952,2 @@
 l9
-l10
+X10
P
timeout 5 "$SB" -p0 -i p.diff </dev/null > out.txt 2>&1; rc=$?
cat out.txt; echo "rc=$rc"
if [ $rc -eq 0 ] && ! grep -q X10 f && [ ! -e f.rej ]; then
  echo "VIOLATED: exit 0, hunk #2 neither applied nor rejected"; cd /; rm -rf "$D"; exit 1
fi
cd /; rm -rf "$D"; exit 0
