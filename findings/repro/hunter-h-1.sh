#!/bin/sh
# C03: a hunk all of whose old lines are trailing context that fuzz may ignore (additions followed by context only)
# is never tried at the position "end of file". On an EMPTY file it is therefore rejected, although the same hunk is
# applied (fuzz 2) to any file that has at least one line, and although ignoring its two context lines is permitted.
# Second face of the same gap: stated exactly at EOF+1 of a non-empty file, it is put one line too early.
# usage: finding_1.sh /path/to/sb_patch   -> exit 1 if the property is violated, 0 if it holds
BIN=${1:-/tmp/head_wt/_b/app/sb_patch}
D=/tmp/hunt_h/f1.$$
rm -rf "$D"; mkdir -p "$D"; cd "$D" || exit 2
bad=0

printf -- '--- a\n+++ a\n@@ -1,2 +1,3 @@\n+x\n a\n b\n' > p.diff
: > a                 # the file lost all of its lines
printf 'r\n' > b      # control: one unrelated line is enough for the hunk to be placed
chown -R 65534:65534 "$D"; chmod -R a+rwX "$D"

timeout 5 setpriv --reuid=65534 --regid=65534 --clear-groups "$BIN" -f -F2 --verbose a p.diff </dev/null > out_a.txt 2>&1
rc_a=$?
timeout 5 setpriv --reuid=65534 --regid=65534 --clear-groups "$BIN" -f -F2 --verbose b p.diff </dev/null > out_b.txt 2>&1
rc_b=$?
echo "empty file : rc=$rc_a  $(grep '^Hunk' out_a.txt)  content=$(od -An -c a | tr -s ' \n' ' ')  rej=$([ -e a.rej ] && echo yes || echo no)"
echo "1-line file: rc=$rc_b  $(grep '^Hunk' out_b.txt)  content=$(od -An -c b | tr -s ' \n' ' ')"
# expected: with -F2 both context lines may be ignored, what is left (insert x) fits at line 1 of the empty file
if [ "$rc_a" != 0 ] || [ "$(cat a)" != "x" ]; then
    echo "VIOLATION: hunk rejected on the empty file (expected: applied with fuzz 2, file = 'x')"
    bad=1
fi

# second face: stated at EOF+1, everything else ignorable -> should go to the end of the file, lands before the last line
printf -- '--- c\n+++ c\n@@ -4 +4,2 @@\n+x\n a\n' > p2.diff
printf 'p\nq\nr\n' > c
chown -R 65534:65534 "$D"; chmod -R a+rwX "$D"
timeout 5 setpriv --reuid=65534 --regid=65534 --clear-groups "$BIN" -f -F1 --verbose c p2.diff </dev/null > out_c.txt 2>&1
echo "stated at EOF+1: rc=$?  $(grep '^Hunk' out_c.txt)  content=$(tr '\n' ' ' < c)"
if [ "$(tr '\n' ' ' < c)" != "p q r x " ]; then
    echo "VIOLATION: insertion stated at line 4 of a 3-line file was not put at line 4 (expected 'p q r x')"
    bad=1
fi

cd /; rm -rf "$D"
exit $bad
