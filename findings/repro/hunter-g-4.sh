#!/bin/sh
# C04 / C16: a reject file name (or the name of the empty backup of a created file) taken by a FIFO:
# the FIFO is opened for writing and the run never ends (no reader). Whatever has that name is to be replaced.
BIN="${1:?usage: $0 /path/to/sb_patch}"
D=/tmp/hunt_g/f4.$$
rm -rf "$D"; mkdir -p "$D/a" "$D/b"; bad=0
cd "$D/a"; printf 'one\ntwo\nthree\n' > f; mkfifo f.rej
printf -- '--- a/f\n+++ b/f\n@@ -1,3 +1,3 @@\n uno\n-dos\n+2\n tres\n' > ../a.diff
cd "$D/b"; mkfifo new.orig
printf -- '--- /dev/null\n+++ b/new\n@@ -0,0 +1 @@\n+hello\n' > ../b.diff
chown -R 65534:65534 "$D"; chmod 777 "$D" "$D/a" "$D/b"
( cd "$D/a" && timeout 5 setpriv --reuid=65534 --regid=65534 --clear-groups "$BIN" -f -p1 -i ../a.diff </dev/null ); rc=$?
echo "(a) exit status $rc (124 = killed by timeout)"
[ $rc -eq 1 ] && [ -f "$D/a/f.rej" ] || { echo "VIOLATION (a): expected exit 1 and a regular reject file f.rej"; ls -l "$D/a"; bad=1; }
( cd "$D/b" && timeout 5 setpriv --reuid=65534 --regid=65534 --clear-groups "$BIN" -b -p1 -i ../b.diff </dev/null ); rc=$?
echo "(b) exit status $rc"
[ $rc -eq 0 ] && [ -f "$D/b/new" ] || { echo "VIOLATION (b): expected exit 0 and the new file"; ls -l "$D/b"; bad=1; }
cd /; rm -rf "$D"
exit $bad
