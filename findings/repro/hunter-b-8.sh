#!/bin/sh
# C15: section 1 removes file a, section 2 ("--- a / +++ b") patches b. The real run (a is gone by then)
# selects b and succeeds, exit 0; --dry-run still sees a, selects a and reports a FAILED hunk, exit 1.
# Each file is touched once.
SB=${1:-/tmp/head_wt/_b/app/sb_patch}
D=$(mktemp -d /tmp/hunt_b/f8.XXXXXX) && cd "$D" || exit 2
mk() { printf 'one\ntwo\n' > a; printf 'x\n' > b; }
cat > p.diff <<'P'
--- a
+++ /dev/null
@@ -1,2 +0,0 @@
-one
-two
--- a
+++ b
@@ -1 +1 @@
-x
+y
P
mk; timeout 5 "$SB" -p0 --dry-run -i p.diff </dev/null > dry.txt 2>&1; drc=$?
mk; timeout 5 "$SB" -p0 -i p.diff </dev/null > real.txt 2>&1; rrc=$?
echo "--- dry (rc=$drc)"; cat dry.txt; echo "--- real (rc=$rrc)"; cat real.txt
if [ $drc -ne $rrc ]; then echo "VIOLATED: dry-run exit $drc, real exit $rrc"; cd /; rm -rf "$D"; exit 1; fi
cd /; rm -rf "$D"; exit 0
