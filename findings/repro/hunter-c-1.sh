#!/bin/sh
# C01/C05: a last line that ends in a bare CR (no LF) loses the CR / makes the hunk fail.
P=${1:-/tmp/head_wt/_b/app/sb_patch}
D=$(mktemp -d /tmp/hunt_c/f1.XXXXXX) || exit 2; cd "$D" || exit 2
bad=0
# forward: B's last line is "b\r" without LF
printf 'a\nb\n' > A; printf 'a\nb\r' > B
diff -u A B > p.diff
cp A f; timeout 5 "$P" f p.diff </dev/null; rc=$?
cmp -s f B && [ $rc -eq 0 ] || { echo "VIOLATION fwd: rc=$rc, result:"; od -c f; bad=1; }
# A's last line is "b\r" without LF: hunk does not even apply
printf 'a\nb\r' > A2; printf 'a\nc\n' > B2
diff -u A2 B2 > p2.diff
cp A2 f2; timeout 5 "$P" f2 p2.diff </dev/null; rc=$?
cmp -s f2 B2 && [ $rc -eq 0 ] && [ ! -e f2.rej ] || { echo "VIOLATION old side: rc=$rc"; ls; bad=1; }
# -R (C05)
cp B f3; timeout 5 "$P" -R f3 p.diff </dev/null; rc=$?
cmp -s f3 A && [ $rc -eq 0 ] || { echo "VIOLATION -R: rc=$rc"; od -c f3; bad=1; }
cd /; rm -rf "$D"; exit $bad
