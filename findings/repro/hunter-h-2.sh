#!/bin/sh
# C06 / C04: a removal-type patch (new side '+0,0') that is NOT applied still deletes the target when the target is an
# existing empty file: with -N the run says "Skipping patch ... 1 out of 1 hunk ignored" (and --dry-run says the same),
# with -f it says "Hunk #1 FAILED", the hunk is saved to a.rej, exit status 1 -- and the file is gone all the same.
# History reaching it: apply the removal once with --posix (POSIX keeps the emptied file), re-apply with -N:
# "with -N every file stays byte-identical" does not hold, the file disappears.
# usage: finding_2.sh /path/to/sb_patch   -> exit 1 if violated, 0 if it holds
BIN=${1:-/tmp/head_wt/_b/app/sb_patch}
D=/tmp/hunt_h/f2.$$
rm -rf "$D"; mkdir -p "$D"; cd "$D" || exit 2
bad=0
run() { timeout 5 setpriv --reuid=65534 --regid=65534 --clear-groups "$BIN" "$@" </dev/null; }

printf -- '--- a\n+++ a\n@@ -1,2 +0,0 @@\n-x\n-y\n' > p.diff
printf 'x\ny\n' > a
chown -R 65534:65534 "$D"; chmod -R a+rwX "$D"

echo "--- step 1: patch --posix (emptied file is kept)"
run --posix -i p.diff; echo "rc=$?"
ls -l a 2>&1 | sed 's/^/    /'
[ -e a ] && [ ! -s a ] || { echo "unexpected state after step 1"; cd /; rm -rf "$D"; exit 2; }

echo "--- step 2 (dry run): patch -N --dry-run"
run -N --dry-run -i p.diff; echo "rc=$?"
echo "--- step 2: patch -N"
run -N -i p.diff; rc=$?; echo "rc=$rc"
if [ -e a ]; then
    echo "file a still exists: ok"
else
    echo "VIOLATION: the patch was skipped (all hunks ignored, rc=$rc), yet the file a was removed"
    bad=1
fi

echo "--- variant: -f on an existing empty file"
rm -f a a.rej a.orig; : > a; chown 65534:65534 a; chmod 666 a
run -f -i p.diff; rc=$?; echo "rc=$rc rej=$([ -e a.rej ] && echo yes || echo no)"
if [ ! -e a ]; then
    echo "VIOLATION: the only hunk FAILED and was saved as a reject (rc=$rc), yet the file a was removed"
    bad=1
fi

cd /; rm -rf "$D"
exit $bad
