#!/bin/sh
# C05: -R of a git copy patch leaves the copy in place (B -> A must remove the file the patch created).
P=${1:-/tmp/head_wt/_b/app/sb_patch}
D=$(mktemp -d /tmp/hunt_c/f4.XXXXXX) || exit 2; cd "$D" || exit 2
bad=0
cat > p.diff <<'EOP'
diff --git a/orig b/copy
similarity index 75%
copy from orig
copy to copy
index 1111111..2222222 100644
--- a/orig
+++ b/copy
@@ -1,4 +1,4 @@
 one
-two
+TWO
 three
 four
EOP
mkdir w; printf 'one\ntwo\nthree\nfour\n' > w/orig
(cd w; timeout 5 "$P" -p1 -i ../p.diff </dev/null) || { echo "forward application failed"; bad=1; }
[ -f w/copy ] || { echo "forward did not create copy"; bad=1; }
(cd w; timeout 5 "$P" -R -p1 -i ../p.diff </dev/null); rc=$?
if [ $rc -ne 0 ] || [ -e w/copy ] || [ "$(cat w/orig)" != "$(printf 'one\ntwo\nthree\nfour')" ]; then
  echo "VIOLATION: rc=$rc; after -R the tree should hold only 'orig' with its old content:"; ls -la w; bad=1
fi
cd /; rm -rf "$D"; exit $bad
