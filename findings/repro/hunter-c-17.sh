#!/bin/sh
# C17: only the file READ is checked for being a regular file; the file WRITTEN by a git rename/copy ("rename to X") is not.
# If X is an existing device node / FIFO, patch writes into it, or - when a backup is taken (-b, or a hunk applied with
# fuzz) - renames the node to X.orig and puts a regular file in its place.  As root with "+++ /dev/null" in such a patch
# this replaces /dev/null by a regular file (this happened to me while fuzzing).  Demonstrated here with a private
# character device node (needs root for mknod; falls back to a FIFO with -b).
P=${1:-/tmp/head_wt/_b/app/sb_patch}
D=$(mktemp -d /tmp/hunt_c/f17.XXXXXX) || exit 2; cd "$D" || exit 2
printf 'one\ntwo\nthree\n' > from
mknod node c 1 3 2>/dev/null || mkfifo node
printf 'diff --git a/from b/node\nsimilarity index 66%%\nrename from from\nrename to node\n--- a/from\n+++ b/node\n@@ -1,3 +1,3 @@\n one\n-two\n+TWO\n three\n' > p.diff
timeout 5 "$P" -b -p1 -i p.diff </dev/null; rc=$?
ls -l
if [ $rc -ne 0 ] && [ ! -f node ] && [ -e node ] && [ -f from ]; then cd /; rm -rf "$D"; exit 0; fi
echo "VIOLATION: rc=$rc; 'node' (not a regular file) should have been refused and 'from' kept"
cd /; rm -rf "$D"; exit 1
