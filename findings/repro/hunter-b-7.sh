#!/bin/sh
# C09: git patch that swaps two files (rename a->b and b->a; same for a chain a->b, b->c).
# The deferred writer writes b (new content = old a) while the old content of b -- the source of the
# rename b->a -- exists only in an unlinked temporary; a kill between the two writes leaves the
# content of b nowhere on disk: "the source of a rename still exists with its original content until the
# destination is completely written" is violated.
SB=${1:-/tmp/head_wt/_b/app/sb_patch}
D=$(mktemp -d /tmp/hunt_b/f7.XXXXXX) && cd "$D" || exit 2
printf 'a1\na2\na3\n' > a; printf 'b1\nb2\nb3\n' > b
cat > p.diff <<'P'
diff --git a/a b/b
similarity index 100%
rename from a
rename to b
diff --git a/b b/a
similarity index 100%
rename from b
rename to a
P
# kill at the first chmod: b has just been written, a not yet
timeout 10 strace -f -o /dev/null -e trace=chmod -e inject=chmod:signal=KILL:when=1 "$SB" -p1 -i p.diff </dev/null > out.txt 2>&1; rc=$?
echo "rc=$rc"; echo "a:"; cat a; echo "b:"; cat b
if ! grep -qx b1 a b 2>/dev/null; then
  echo "VIOLATED: after the kill the original content of b (b1 b2 b3) is in neither a nor b"; cd /; rm -rf "$D"; exit 1
fi
cd /; rm -rf "$D"; exit 0
