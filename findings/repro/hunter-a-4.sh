#!/bin/sh
# C12: with -p0 the names on git's "rename from"/"rename to"/"copy from"/"copy to" lines are reduced
# to their BASE NAME (strip-1 == -1 is taken as "no -p given") before "a/" / "b/" is put in front:
# "rename from dir/old" names a/old instead of a/dir/old.  The header names a/dir/old; -p0 must
# remove exactly 0 components.  With a/old also present the WRONG file is renamed.
# exit 0 = property holds, 1 = violated.   usage: finding_4.sh /path/to/sb_patch
P=${1:-/tmp/head_wt/_b/app/sb_patch}
W=$(mktemp -d /tmp/hunt_a/f4.XXXXXX) || exit 2
cd "$W" || exit 2
printf 'diff --git a/dir/old b/dir/new\nsimilarity index 100%%\nrename from dir/old\nrename to dir/new\n' > r.diff
rc=0
# case 1: only the named file exists
mkdir -p t1/a/dir; printf 'right\n' > t1/a/dir/old
( cd t1 && timeout 5 "$P" -p0 -i ../r.diff </dev/null >../out1.txt 2>&1 ); e1=$?
echo "case 1: exit $e1"; sed -n '1,2p' out1.txt; ( cd t1 && find . -type f | sort )
[ -f t1/b/dir/new ] && [ ! -e t1/a/dir/old ] || { echo "VIOLATION: a/dir/old was not renamed to b/dir/new"; rc=1; }
# case 2: a/old exists as well -> it is the one which gets moved
mkdir -p t2/a/dir; printf 'right\n' > t2/a/dir/old; printf 'wrong\n' > t2/a/old
( cd t2 && timeout 5 "$P" -p0 -i ../r.diff </dev/null >../out2.txt 2>&1 ); e2=$?
echo "case 2: exit $e2"; cat out2.txt; ( cd t2 && find . -type f | sort )
[ -f t2/a/old ] || { echo "VIOLATION: the unrelated file a/old was taken"; rc=1; }
# for comparison -p1 does the right thing
mkdir -p t3/dir; printf 'right\n' > t3/dir/old
( cd t3 && timeout 5 "$P" -p1 -i ../r.diff </dev/null >/dev/null 2>&1 ); [ -f t3/dir/new ] && echo "(-p1 is fine: dir/old -> dir/new)"
cd /; rm -rf "$W"
exit $rc
