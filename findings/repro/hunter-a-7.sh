#!/bin/sh
# C14: "the output ends without a newline exactly when its last line is an original line that had
# none or an added line marked '\ No newline at end of file'".  When the PATCH FILE itself does not
# end in a newline (pasted text, truncated mail) its last line is read with terminator "none";
# if that line is an added line it is written without any terminator in every --newline-output
# mode although nothing marks it so: the output loses its final newline, or - when more lines of
# the file follow (diff -U0 / normal diffs) - the added line is glued to the next original line.
# exit 0 = property holds, 1 = violated.   usage: finding_7.sh /path/to/sb_patch
P=${1:-/tmp/head_wt/_b/app/sb_patch}
W=$(mktemp -d /tmp/hunt_a/f7.XXXXXX) || exit 2
cd "$W" || exit 2
rc=0
for mode in native lf crlf preserve; do
    case $mode in crlf) nl='\r\n';; *) nl='\n';; esac
    # (a) added line is the last line of the result
    printf 'a\nb\n' > f
    printf -- '--- f\n+++ f\n@@ -1,2 +1,3 @@\n a\n b\n+c' > p.diff          # no newline after "+c", no marker
    timeout 5 "$P" -f --newline-output=$mode f p.diff </dev/null >/dev/null 2>&1
    printf "a${nl}b${nl}c${nl}" > want
    if ! cmp -s f want; then echo "VIOLATION ($mode, unified): output is:"; od -c f | sed -n 1,2p; rc=1; fi
    # (b) added line in the middle: glued to the following original line
    printf 'a\nb\nz\n' > f
    printf -- '2a3\n> c' > p.diff                                            # normal diff, no final newline
    timeout 5 "$P" -f --newline-output=$mode f p.diff </dev/null >/dev/null 2>&1
    printf "a${nl}b${nl}c${nl}z${nl}" > want
    if ! cmp -s f want; then echo "VIOLATION ($mode, normal): output is:"; od -c f | sed -n 1,2p; rc=1; fi
done
# related (parsing rather than C14): a context diff whose last line is the only line of the to-file half
printf 'a\nb\n' > f
printf -- '*** f\n--- f\n***************\n*** 2 ****\n! b\n--- 2 ----\n! B' > p.diff
timeout 5 "$P" -f f p.diff </dev/null >/dev/null 2>&1; e=$?
printf 'a\nB\n' > want
cmp -s f want || { echo "RELATED (context, exit $e): replacement line silently dropped, output is:"; od -c f | sed -n 1,2p; }
cd /; rm -rf "$W"
exit $rc
