#!/bin/bash
# -b -o out with a removal which applies, out absent: out is neither written nor removed (it never existed),
# so there is to be no backup of it. Observed: an empty out.orig appears.
BIN="${1:-/tmp/head_wt/_b/app/sb_patch}"
W="$(mktemp -d /tmp/hunt_k_f5.XXXXXX)"
trap 'rm -rf "$W"' EXIT
chmod 777 "$W"
run() { ( cd "$W" && timeout 5 setpriv --reuid=65534 --regid=65534 --clear-groups "$BIN" "$@" </dev/null ); }
own() { chown -R 65534:65534 "$W"; chmod -R a+rwX "$W"; }
printf 'a\nb\nc\n' > "$W/f"
printf -- '--- f\n+++ /dev/null\n@@ -1,3 +0,0 @@\n-a\n-b\n-c\n' > "$W/p.diff"
own
run -b -o out -i p.diff > "$W/log" 2>&1; rc=$?
echo "exit=$rc"; cat "$W/log"; ls -la "$W"
if [ ! -e "$W/out" ] && [ -e "$W/out.orig" ]; then
  echo "VIOLATED: backup out.orig of a file which never existed and was not written"; exit 1
fi
echo holds; exit 0
