#!/bin/sh
# C04 (also C01-ish): -o FILE with several sections: every section is applied to the on-disk original and
# overwrites FILE, so hunks reported as applied are lost; exit 0, no reject.
SB=${1:-/tmp/head_wt/_b/app/sb_patch}
D=$(mktemp -d /tmp/hunt_b/f2.XXXXXX) && cd "$D" || exit 2
printf 'l1\nl2\nl3\nl4\nl5\nl6\nl7\nl8\nl9\nl10\n' > f
cat > p.diff <<'P'
--- f
+++ f
@@ -1,6 +1,6 @@
 l1
 l2
-l3
+L3
 l4
 l5
 l6
--- f
+++ f
@@ -5,6 +5,6 @@
 l5
 l6
 l7
-l8
+L8
 l9
 l10
P
timeout 5 "$SB" -p0 -o out -i p.diff </dev/null > out.txt 2>&1; rc=$?
cat out.txt; echo "rc=$rc"
if [ $rc -eq 0 ] && ! grep -q '^L3$' out && [ ! -e out.rej ]; then
  echo "VIOLATED: exit 0, no reject, but hunk 'l3->L3' is neither in out nor rejected:"; cat out; cd /; rm -rf "$D"; exit 1
fi
cd /; rm -rf "$D"; exit 0
