#!/bin/sh
# C18: -b -B <prefix> where prefix+path lies in a directory that does not exist yet (e.g. -B bak/):
# the backup is due, but the run dies with exit 2 "Unable to rename f to bak/f", nothing is patched.
SB=${1:-/tmp/head_wt/_b/app/sb_patch}
D=$(mktemp -d /tmp/hunt_b/f4.XXXXXX) && cd "$D" || exit 2
printf 'a\n' > f
printf -- '--- f\n+++ f\n@@ -1 +1 @@\n-a\n+b\n' > p.diff
timeout 5 "$SB" -p0 -b -B bak/ -i p.diff </dev/null > out.txt 2>&1; rc=$?
cat out.txt; echo "rc=$rc"
if [ $rc -ne 0 ] || [ "$(cat bak/f 2>/dev/null)" != a ] || [ "$(cat f)" != b ]; then
  echo "VIOLATED: expected exit 0, bak/f = original, f patched"; cd /; rm -rf "$D"; exit 1
fi
cd /; rm -rf "$D"; exit 0
