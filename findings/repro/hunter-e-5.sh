#!/bin/sh
# C17-adjacent observation (interaction of 586d7d3 "writable only when written" with f2c28c3/afad64f backups):
# the chmod that makes a read-only target writable (adding 0222, i.e. group and WORLD write) is done before
# the backup is taken; when the backup step fails (backup prefix names a path with a file in the way, an
# unwritable backup directory, f.orig is a directory ...) the run gives up with exit 2 and the target,
# bytes untouched, is left world-writable (0440 -> 0662).
SB=${1:-/tmp/head_wt/_b/app/sb_patch}
D=$(mktemp -d /tmp/hunt_e/f5.XXXXXX); chmod 777 "$D"; cd "$D" || exit 2
RUN="timeout 5"; [ "$(id -u)" = 0 ] && RUN="timeout 5 setpriv --reuid=65534 --regid=65534 --clear-groups"
printf 'one\ntwo\nthree\n' > f; mkdir f.orig
cat > P <<'EOP'
--- f
+++ f
@@ -1,3 +1,3 @@
 one
-two
+TWO
 three
EOP
[ "$(id -u)" = 0 ] && chown -R 65534:65534 f f.orig
chmod 440 f
$RUN "$SB" -b -i P </dev/null; rc=$?
m=$(stat -c %a f)
echo "rc=$rc mode of f now: $m (was 440)"
bad=0
[ "$m" = 440 ] || { echo "VIOLATION: target given up on (rc $rc) is left with mode $m"; bad=1; }
chmod -R u+rwx . 2>/dev/null; cd /; rm -rf "$D"
exit $bad
