#!/bin/sh
# C12: a file name containing one of the bytes 07 08 0B 0C 0D is written by GNU diff and by git as a C-quoted
# name with the escapes \a \b \v \f \r. patch knows \\ \" \n \t and octal only, and gives up on the whole
# input with status 2 ("Invalid or unsupported escape character"). (The same byte written in octal, as both
# tools do for 1B or 7F, is fine.)  Not related to a recent fix.
SB=${1:-/tmp/head_wt/_b/app/sb_patch}
D=$(mktemp -d /tmp/hunt_d/f7.XXXXXX); chmod 777 "$D"; cd "$D" || exit 2
bad=0
CR=$(printf '\r')
mkdir a b w
printf '1\n2\n' > "a/x${CR}y"; printf '1\nX\n' > "b/x${CR}y"; printf '1\n2\n' > "w/x${CR}y"
diff -u "a/x${CR}y" "b/x${CR}y" > p        # --- "a/x\ry"<TAB>...
chown -R 65534:65534 .
cd w
timeout 5 setpriv --reuid=65534 --regid=65534 --clear-groups "$SB" -p1 -i ../p >../out 2>&1 </dev/null; rc=$?
cd ..
if [ $rc -ne 0 ] || ! cmp -s "w/x${CR}y" "b/x${CR}y"; then echo "rc=$rc"; head -2 p | cat -v; cat -v out; bad=1; fi
cd /; rm -rf "$D"
exit $bad
