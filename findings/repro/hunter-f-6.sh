#!/bin/sh
# Finding 6 (C06/C05): a git patch which renames o to n and changes a line, applied, then run again with -t:
# "Reversed (or previously applied) patch detected!  Assuming -R." - but only the lines are put back, the file keeps its new
# name. Running the same patch with -R on the same tree moves it back to o. "Assuming -R" must do what -R does.
# (process_patch decides "already renamed" -> operation = Change and the output path before apply_patch finds the patch reversed.)
BIN=${1:-/tmp/head_wt/_b/app/sb_patch}
D=$(mktemp -d /tmp/hunt_f/f6.XXXXXX) || exit 2
trap 'rm -rf "$D"' EXIT
printf 'diff --git a/o b/n\nsimilarity index 50%%\nrename from o\nrename to n\n--- a/o\n+++ b/n\n@@ -1,3 +1,3 @@\n a\n-b\n+B\n c\n' > "$D/p.diff"
chown -R 65534:65534 "$D"; chmod 777 "$D"
cd "$D" || exit 2
run() { timeout 5 setpriv --reuid=65534 --regid=65534 --clear-groups "$BIN" "$@" </dev/null 2>&1; }
printf 'a\nb\nc\n' > o; chown 65534 o
run -f -p1 -i p.diff; echo "after apply: $(ls | grep -v p.diff | tr '\n' ' ')"
cp n n.keep
run -R -f -p1 -i p.diff; WITH_R=$(ls | grep -v -e p.diff -e keep | tr '\n' ' '); echo "after -R: $WITH_R"
rm -f o n; cp n.keep n; chown 65534 n
run -t -p1 -i p.diff; WITH_T=$(ls | grep -v -e p.diff -e keep | tr '\n' ' '); echo "after second run with -t: $WITH_T; content: $(cat n o 2>/dev/null | tr '\n' ' ')"
if [ "$WITH_R" = "$WITH_T" ]; then echo OK; exit 0; fi
echo "VIOLATION: -t says 'Assuming -R' but does not restore the original tree (file o)"; exit 1
