#!/bin/sh
# C17: "Prereq:" is ignored as soon as -pN with N>=1 is given (the prerequisite word is run through the -p path
# stripping, which empties it), so --batch does not refuse a file that lacks the prerequisite.
P=${1:-/tmp/head_wt/_b/app/sb_patch}
D=$(mktemp -d /tmp/hunt_c/f8.XXXXXX) || exit 2; cd "$D" || exit 2
printf 'version 1.0\none\ntwo\nthree\n' > f; chmod 640 f; cp -p f keep
printf -- 'Prereq: 9.9\n--- a/f\n+++ b/f\n@@ -2,3 +2,3 @@\n one\n-two\n+TWO\n three\n' > p.diff
timeout 5 "$P" --batch -p1 -i p.diff </dev/null; rc=$?
if [ $rc -ne 0 ] && cmp -s f keep; then cd /; rm -rf "$D"; exit 0; fi
echo "VIOLATION: rc=$rc (expected abort, file untouched; without -p1 it does abort). f is now:"; cat f
cd /; rm -rf "$D"; exit 1
