#!/bin/sh
# C13: an ordinary, in-order `diff -u` patch whose first hunk removes many lines and whose
# second hunk fails yields a reject with a NEGATIVE new-side start line ("+-9,7"), which is
# not a syntactically valid diff and which sb_patch itself cannot read back.
# exit 0 = property holds, 1 = violated.   usage: finding_1.sh /path/to/sb_patch
P=${1:-/tmp/head_wt/_b/app/sb_patch}
W=$(mktemp -d /tmp/hunt_a/f1.XXXXXX) || exit 2
cd "$W" || exit 2
seq 1 40 | sed 's/^/line/' > old
# new: lines 2..18 removed, line 30 changed
sed -e '2,18d' -e 's/^line30$/LINE30/' old > new
diff -u old new > p.diff
# target: like old, but line 30 differs so that hunk #2 fails
sed 's/^line30$/other30/' old > f
timeout 5 "$P" -f f p.diff </dev/null >out.txt 2>&1
echo "--- patch:";  grep '^@@' p.diff
echo "--- f.rej:";  cat f.rej
rc=0
# expected header: old start 27-17=10, new start 10 (or at least a non-negative number)
if ! grep -Eq '^@@ -[0-9]+(,[0-9]+)? \+[0-9]+(,[0-9]+)? @@' f.rej; then
    echo "VIOLATION: hunk header of the reject is not a valid unified range"; rc=1
fi
# feed it back to the very same program on a file where it must apply
sed '2,18d' old > g
timeout 5 "$P" -f g f.rej </dev/null >out2.txt 2>&1; rc2=$?
echo "--- feeding f.rej back: exit $rc2"; cat out2.txt
if [ $rc2 -ne 0 ] || ! cmp -s g new; then echo "VIOLATION: reject can not be applied by sb_patch itself"; rc=1; fi
# same with context rejects
sed 's/^line30$/other30/' old > f; rm -f f.rej
timeout 5 "$P" -f --reject-format=context f p.diff </dev/null >/dev/null 2>&1
echo "--- f.rej (context):"; grep -E '^(\*\*\*|---) [-0-9]' f.rej
grep -Eq '^--- -[0-9]' f.rej && { echo "VIOLATION: negative range in context reject"; rc=1; }
cd /; rm -rf "$W"
exit $rc
