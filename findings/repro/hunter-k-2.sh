#!/bin/bash
# f = a,b ; two hunks remove a,b and c,d ; -f -o out with out absent. Hunk 1 is reported as applied, hunk 2 rejected.
# The result (an empty file) must be written to out, as it is when out happens to exist. Observed: out is never written.
BIN="${1:-/tmp/head_wt/_b/app/sb_patch}"
W="$(mktemp -d /tmp/hunt_k_f2.XXXXXX)"
trap 'rm -rf "$W"' EXIT
chmod 777 "$W"
run() { ( cd "$W" && timeout 5 setpriv --reuid=65534 --regid=65534 --clear-groups "$BIN" "$@" </dev/null ); }
own() { chown -R 65534:65534 "$W"; chmod -R a+rwX "$W"; }
printf -- '--- f\n+++ /dev/null\n@@ -1,2 +0,0 @@\n-a\n-b\n@@ -3,2 +0,0 @@\n-c\n-d\n' > "$W/p.diff"
printf 'a\nb\n' > "$W/f"
own
run -f -o out -i p.diff > "$W/log" 2>&1; rc=$?
echo "exit=$rc"; cat "$W/log"; ls -la "$W"
grep -q '1 out of 2 hunks FAILED' "$W/log" || { echo "unexpected messages"; exit 0; }
if [ ! -e "$W/out" ]; then
  echo "VIOLATED: hunk 1 reported applied but its result was written nowhere (out missing, f still holds its lines)"; exit 1
fi
echo holds; exit 0
