#!/bin/sh
# C10 (quantifier "each system call in the run"; lseek/stat are not in the list of the statement):
# (a) lseek failing in rewind() of the temporary: the error is swallowed, nothing is copied, the target is
#     left EMPTY, exit 0, no message.
# (b) stat failing in Backup::make_backup_for (exists()): the target is taken for missing, an EMPTY backup
#     is created and the original is overwritten, exit 0, no message.
SB=${1:-/tmp/head_wt/_b/app/sb_patch}
D=$(mktemp -d /tmp/hunt_b/f10.XXXXXX) && cd "$D" || exit 2
printf -- '--- f\n+++ f\n@@ -1 +1 @@\n-a\n+b\n' > p.diff
v=0
printf 'a\n' > f
# the last lseek of the run is the rewind before copying the temporary to f
n=$(strace -f -e trace=lseek -o st.log "$SB" -p0 -i p.diff </dev/null >/dev/null 2>&1; grep -c 'lseek(' st.log)
printf 'a\n' > f
timeout 10 strace -f -o /dev/null -e trace=lseek -e inject=lseek:error=EIO:when=$n "$SB" -p0 -i p.diff </dev/null > out.txt 2>&1; rc=$?
echo "(a) rc=$rc f=[$(cat f)]"; cat out.txt
if [ $rc -ne 2 ] && [ "$(cat f)" != b ]; then echo "VIOLATED (a): exit $rc but f is not the patched file"; v=1; fi
# (b)
printf 'a\n' > f; rm -f f.orig
strace -f -e trace=newfstatat,rename -o st.log "$SB" -p0 -b -i p.diff </dev/null >/dev/null 2>&1
n=$(grep -n 'rename("f"' st.log | cut -d: -f1); n=$((n-1))   # the stat right before the rename
n=$(head -$n st.log | grep -c 'newfstatat(')
printf 'a\n' > f; rm -f f.orig
timeout 10 strace -f -o /dev/null -e trace=newfstatat -e inject=newfstatat:error=EIO:when=$n "$SB" -p0 -b -i p.diff </dev/null > out.txt 2>&1; rc=$?
echo "(b) rc=$rc f=[$(cat f)] f.orig=[$(cat f.orig)]"; cat out.txt
if [ $rc -ne 2 ] && [ "$(cat f.orig)" != a ]; then echo "VIOLATED (b): exit $rc, backup does not hold the original"; v=1; fi
cd /; rm -rf "$D"; exit $v
