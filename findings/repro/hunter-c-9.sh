#!/bin/sh
# C17: a target that is a symbolic link is not refused: the patch is written through the link (or, with -b, the link is
# moved to f.orig and replaced by a regular file); a dangling link is followed to create a file elsewhere.
P=${1:-/tmp/head_wt/_b/app/sb_patch}
D=$(mktemp -d /tmp/hunt_c/f9.XXXXXX) || exit 2; cd "$D" || exit 2
bad=0
printf -- '--- f\n+++ f\n@@ -1,3 +1,3 @@\n one\n-two\n+TWO\n three\n' > p.diff
mkdir w1; (cd w1; printf 'one\ntwo\nthree\n' > real; ln -s real f; timeout 5 "$P" -i ../p.diff </dev/null; echo "rc=$?" > ../rc1)
if grep -q 'rc=0' rc1 || [ "$(cat w1/real)" != "$(printf 'one\ntwo\nthree')" ]; then echo "VIOLATION: symlink target patched through the link ($(cat rc1)):"; ls -l w1; cat w1/real; bad=1; fi
mkdir w2; (cd w2; printf 'one\ntwo\nthree\n' > real; ln -s real f; timeout 5 "$P" -b -i ../p.diff </dev/null; echo "rc=$?" > ../rc2)
if grep -q 'rc=0' rc2 || [ ! -L w2/f ]; then echo "VIOLATION (-b): link replaced by a regular file ($(cat rc2)):"; ls -l w2; bad=1; fi
printf -- '--- /dev/null\n+++ f\n@@ -0,0 +1 @@\n+created\n' > pnew.diff
mkdir w3; (cd w3; ln -s elsewhere f; timeout 5 "$P" -i ../pnew.diff </dev/null; echo "rc=$?" > ../rc3)
if [ -e w3/elsewhere ]; then echo "VIOLATION: dangling link followed, created 'elsewhere' ($(cat rc3)):"; ls -l w3; bad=1; fi
cd /; rm -rf "$D"; exit $bad
