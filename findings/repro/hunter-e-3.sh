#!/bin/sh
# C16 (related to f57c9dc; the refusal covers targets only): a pre-existing f.rej or f.orig that is a symbolic
# link is written THROUGH: the reject text lands in (and the empty backup of a created file truncates) the
# bystander the link points at.
SB=${1:-/tmp/head_wt/_b/app/sb_patch}
D=$(mktemp -d /tmp/hunt_e/f3.XXXXXX); chmod 777 "$D"; cd "$D" || exit 2
RUN="timeout 5"; [ "$(id -u)" = 0 ] && RUN="timeout 5 setpriv --reuid=65534 --regid=65534 --clear-groups"
bad=0
printf 'precious\n' > by1; printf 'precious\n' > by2
printf 'one\ntwo\nthree\n' > f
ln -s by1 f.rej; ln -s by2 n.orig
[ "$(id -u)" = 0 ] && chown -h 65534:65534 by1 by2 f f.rej n.orig
cat > P1 <<'EOP'
--- f
+++ f
@@ -1,3 +1,3 @@
 one
-zwei
+TWO
 three
EOP
cat > P2 <<'EOP'
--- /dev/null
+++ n
@@ -0,0 +1 @@
+hello
EOP
$RUN "$SB" --no-backup-if-mismatch -i P1 </dev/null >/dev/null 2>&1; echo "reject run rc=$?"
$RUN "$SB" -b -i P2 </dev/null >/dev/null 2>&1; echo "create -b run rc=$?"
[ "$(cat by1)" = precious ] || { echo "VIOLATION: bystander by1 overwritten with rejects through the link f.rej"; bad=1; }
[ "$(cat by2)" = precious ] || { echo "VIOLATION: bystander by2 truncated through the link n.orig"; bad=1; }
cd /; rm -rf "$D"
exit $bad
