#!/bin/sh
# C16: a target which has a second hard link is rewritten in place: the other name (a bystander) changes too.
# (GNU patch writes a new file and renames it, so the link is broken and the other name keeps its bytes;
#  with -b sb_patch does the same by accident, because the original is moved to the backup first.)
BIN="${1:?usage: $0 /path/to/sb_patch}"
D=/tmp/hunt_g/f3.$$
rm -rf "$D"; mkdir -p "$D/other"; cd "$D" || exit 2
printf 'one\ntwo\nthree\n' > f; ln f other/snapshot
printf -- '--- a/f\n+++ b/f\n@@ -1,3 +1,3 @@\n one\n-two\n+2\n three\n' > p.diff
chown -R 65534:65534 "$D"; chmod 777 "$D"
timeout 5 setpriv --reuid=65534 --regid=65534 --clear-groups "$BIN" -p1 -i p.diff </dev/null; echo "exit status $?"
bad=0
if [ "$(cat other/snapshot)" != "$(printf 'one\ntwo\nthree\n')" ]; then echo "VIOLATION: bystander other/snapshot changed:"; sed 's/^/    /' other/snapshot; bad=1; fi
cd /; rm -rf "$D"
exit $bad
