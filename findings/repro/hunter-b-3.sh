#!/bin/sh
# C04: removing a file whose name is spelled './f', './d/f', 'd//f' (or lives in a symlinked directory):
# the file is removed, then rmdir(".") / rmdir("d") of the "now-empty parent" fails -> fatal exit 2
# although every hunk applied; the remaining sections of the patch are never processed.
SB=${1:-/tmp/head_wt/_b/app/sb_patch}
D=$(mktemp -d /tmp/hunt_b/f3.XXXXXX) && cd "$D" || exit 2
printf 'x\n' > f; printf 'k\n' > keep
cat > p.diff <<'P'
--- ./f
+++ /dev/null
@@ -1 +0,0 @@
-x
--- keep
+++ keep
@@ -1 +1 @@
-k
+K
P
timeout 5 "$SB" -p0 -i p.diff </dev/null > out.txt 2>&1; rc=$?
cat out.txt; echo "rc=$rc"
if [ $rc -ne 0 ] || [ "$(cat keep)" != K ]; then
  echo "VIOLATED: expected exit 0 with f removed and keep patched; got rc=$rc keep=$(cat keep)"; cd /; rm -rf "$D"; exit 1
fi
cd /; rm -rf "$D"; exit 0
