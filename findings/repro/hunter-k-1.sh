#!/bin/bash
# -N -o out on a removal which is already applied (f is gone) must leave a pre-existing 'out' byte-identical.
# Observed at b9e69c9: out is truncated to nothing (no backup under -N). At 4266f2e it was left alone.
BIN="${1:-/tmp/head_wt/_b/app/sb_patch}"
W="$(mktemp -d /tmp/hunt_k_f1.XXXXXX)"
trap 'rm -rf "$W"' EXIT
chmod 777 "$W"
run() { ( cd "$W" && timeout 5 setpriv --reuid=65534 --regid=65534 --clear-groups "$BIN" "$@" </dev/null ); }
own() { chown -R 65534:65534 "$W"; chmod -R a+rwX "$W"; }
printf -- '--- f\n+++ /dev/null\n@@ -1,3 +0,0 @@\n-a\n-b\n-c\n' > "$W/p.diff"
printf 'old\nout\n' > "$W/out"
own
run -N -o out -i p.diff > "$W/log" 2>&1; rc=$?
echo "exit=$rc"; cat "$W/log"; ls -la "$W"
if [ "$(cat "$W/out" 2>/dev/null)" != "$(printf 'old\nout\n')" ] || [ ! -e "$W/out" ]; then
  echo "VIOLATED: out changed by a skipped patch: '$(cat "$W/out" 2>/dev/null)'"; exit 1
fi
echo holds; exit 0
