#!/bin/sh
# C16 / C11 / C17: a git stream which adds priv/new and deletes priv/old (the only file there): the deletion is
# carried out at once, the write of priv/new is deferred to the end of the run, so in between the directory is empty,
# is removed, and is made again with default permissions by the deferred writer. A directory with mode 2770 comes out
# as 0755 (its files become readable by everyone). One run per section (or any order in a non-git stream where the
# new file comes first) never removes the directory.
BIN="${1:?usage: $0 /path/to/sb_patch}"
D=/tmp/hunt_g/f7.$$
rm -rf "$D"; mkdir -p "$D/priv"; cd "$D" || exit 2
printf 'secret\n' > priv/old
cat > p.diff <<'EOP'
diff --git a/priv/new b/priv/new
new file mode 100644
index 0000000..2222222
--- /dev/null
+++ b/priv/new
@@ -0,0 +1 @@
+secret2
diff --git a/priv/old b/priv/old
deleted file mode 100644
index 1111111..0000000
--- a/priv/old
+++ /dev/null
@@ -1 +0,0 @@
-secret
EOP
chown -R 65534:65534 "$D"; chmod 777 "$D"; chmod 2770 priv
before=$(stat -c %a priv)
timeout 5 setpriv --reuid=65534 --regid=65534 --clear-groups "$BIN" -p1 -i p.diff </dev/null; echo "exit status $?"
after=$(stat -c %a priv 2>/dev/null)
echo "mode of priv before: $before after: $after"
bad=0
[ "$before" = "$after" ] || { echo "VIOLATION: the directory priv was removed and made again: mode $before -> $after"; bad=1; }
cd /; rm -rf "$D"
exit $bad
