#!/bin/sh
# C05 for git patches about symbolic links: a patch with "new file mode 120000" creates the link, but -R of the
# same patch does not remove it again ("File l is not a regular file -- refusing to patch", status 1), and a patch
# with "deleted file mode 120000" is never applied (while its -R does create the link). Since 8a25263 every existing
# link is refused, whatever the patch says about it; removal of a link whose target equals the hunk is not implemented.
BIN=${1:-/tmp/head_wt/_b/app/sb_patch}
D=/tmp/hunt_i/f5.$$
rm -rf "$D"; mkdir -p "$D/t"; cd "$D/t" || exit 2
run() { timeout 5 setpriv --reuid=65534 --regid=65534 --clear-groups "$BIN" "$@" </dev/null; }
printf -- 'diff --git a/l b/l\nnew file mode 120000\nindex 0000000..1de5659\n--- /dev/null\n+++ b/l\n@@ -0,0 +1 @@\n+target\n\\ No newline at end of file\n' > ../p.diff
chown -R 65534:65534 "$D"; chmod 777 "$D" "$D/t"
echo "--- forward:"; run -p1 -f -i ../p.diff; rc1=$?; echo "rc=$rc1; tree: $(ls -A | tr '\n' ' ') l -> $(readlink l)"
echo "--- reverse:"; run -p1 -f -R -i ../p.diff; rc2=$?; echo "rc=$rc2; tree: $(ls -A | tr '\n' ' ')"
bad=0
if [ "$rc1" = 0 ] && [ -L l ]; then
    echo "VIOLATION C05: -R of the patch which created the link l leaves it in place (rc=$rc2)"
    bad=1
fi
cd /; rm -rf "$D"
exit $bad
