#!/bin/sh
# C17 / C15 / C11: a target which the user may write to but does not own (mode 0666, owner root; think of a
# group-writable shared tree) is patched completely, then the unconditional chmod() which "restores" the
# unchanged mode fails with EPERM: exit status 2, the run ends there (later sections are not applied),
# while --dry-run on the same state predicts status 0. No mode had to be changed at all.
BIN=${1:-/tmp/head_wt/_b/app/sb_patch}
[ "$(id -u)" = 0 ] || { echo "needs root to set up a file owned by someone else"; exit 0; }
D=/tmp/hunt_i/f2.$$
rm -rf "$D"; mkdir -p "$D/t"; cd "$D/t" || exit 2
run() { timeout 5 setpriv --reuid=65534 --regid=65534 --clear-groups "$BIN" "$@" </dev/null; }
printf 'a\nb\nc\n' > f; printf 'a\nb\nc\n' > g
printf -- '--- f\n+++ f\n@@ -1,3 +1,3 @@\n a\n-b\n+B\n c\n--- g\n+++ g\n@@ -1,3 +1,3 @@\n a\n-b\n+B\n c\n' > ../p.diff
chown -R 65534:65534 "$D"; chmod 777 "$D" "$D/t"
chown root:root f; chmod 666 f          # writable for everyone, owned by someone else
echo "--- dry run:"; run --dry-run -i ../p.diff; rcd=$?; echo "rc=$rcd"
echo "--- real run:"; run -i ../p.diff; rc=$?; echo "rc=$rc"
echo "f: $(tr '\n' ' ' < f) mode $(stat -c %a f);  g: $(tr '\n' ' ' < g)"
bad=0
if [ "$rc" != "$rcd" ]; then echo "VIOLATION C15: --dry-run predicted status $rcd, the real run ended with $rc"; bad=1; fi
if [ "$rc" = 2 ] && grep -q B f; then echo "VIOLATION C17: f was patched completely and its mode needed no change, yet the run failed with status 2"; bad=1; fi
if ! grep -q B g; then echo "VIOLATION C11: the section for g was never applied"; bad=1; fi
echo "--- same root cause: trying a patch out with -o /dev/null as an ordinary user (patch applies exactly, no backup due):"
printf 'a\nb\nc\n' > h; chown 65534:65534 h
printf -- '--- h\n+++ h\n@@ -1,3 +1,3 @@\n a\n-b\n+B\n c\n' > ../p2.diff
run -o /dev/null -i ../p2.diff; rco=$?; echo "rc=$rco"
if [ "$rco" != 0 ]; then echo "VIOLATION: '-o /dev/null' of a patch which applies exactly ends with status $rco (chmod of /dev/null refused)"; bad=1; fi
cd /; rm -rf "$D"
exit $bad
