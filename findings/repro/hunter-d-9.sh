#!/bin/sh
# C11 (minor): the word of a Prereq: line is still read like a file name: one that starts with a double quote is
# taken for a C-quoted name and, not being one, ends the run with status 2. Left over from fix a148946
# (do not strip the word of a Prereq: line like a file name).
SB=${1:-/tmp/head_wt/_b/app/sb_patch}
D=$(mktemp -d /tmp/hunt_d/f9.XXXXXX); chmod 777 "$D"; cd "$D" || exit 2
run() { chown -R 65534:65534 . ; timeout 5 setpriv --reuid=65534 --regid=65534 --clear-groups "$SB" "$@" </dev/null; }
printf '#define VERSION "1.2\na\n' > f
printf -- 'Prereq: "1.2\n--- f\n+++ f\n@@ -1,2 +1,2 @@\n #define VERSION "1.2\n-a\n+b\n' > p
run -i p >out 2>&1; rc=$?
bad=0
if [ $rc -ne 0 ]; then echo "rc=$rc"; cat out; bad=1; fi
cd /; rm -rf "$D"
exit $bad
