#!/bin/sh
# C04: rejects of different sections going to the same reject file overwrite each other
# (-r FILE with two failing targets; or two failing sections for one target): the rejected hunk of
# the first section is neither applied nor in any reject file; "1 out of 1 hunk FAILED" was reported twice.
SB=${1:-/tmp/head_wt/_b/app/sb_patch}
D=$(mktemp -d /tmp/hunt_b/f5.XXXXXX) && cd "$D" || exit 2
printf 'zz\n' > f; printf 'yy\n' > g
cat > p.diff <<'P'
--- f
+++ f
@@ -1,3 +1,3 @@
 a
-b
+FIRST
 c
--- g
+++ g
@@ -1,3 +1,3 @@
 a
-b
+SECOND
 c
P
timeout 5 "$SB" -p0 -r all.rej -i p.diff </dev/null > out.txt 2>&1; rc=$?
cat out.txt; echo "rc=$rc"
v=0
grep -q FIRST all.rej || { echo "VIOLATED (-r): rejected hunk of f is not in all.rej (and not applied)"; v=1; }
# variant: same target twice, default reject name
printf 'zz\n' > f; rm -f all.rej f.rej
sed -e 's/^--- g/--- f/' -e 's/^+++ g/+++ f/' p.diff > p2.diff
timeout 5 "$SB" -p0 -i p2.diff </dev/null > out2.txt 2>&1; echo "rc=$?"; cat out2.txt
grep -q FIRST f.rej || { echo "VIOLATED (same file twice): first rejected hunk is not in f.rej"; v=1; }
cd /; rm -rf "$D"; exit $v
