#!/bin/sh
# C03 (borderline, depends on the reading of "after ignoring at most the permitted number of outer context lines"):
# the old side of the hunk, minus its first context line, is in the file - at the very top, because the file lost its
# first line.  Fuzz 1 would place it (GNU patch: "succeeded at 1 with fuzz 1"), but it is rejected because the ignored
# line would lie before line 1.  Same at the end of the file.
P=${1:-/tmp/head_wt/_b/app/sb_patch}
D=$(mktemp -d /tmp/hunt_c/f12.XXXXXX) || exit 2; cd "$D" || exit 2
bad=0
printf -- '--- f\n+++ f\n@@ -1,7 +1,7 @@\n c1\n c2\n c3\n-x\n+y\n c4\n c5\n c6\n' > p.diff
printf 'c2\nc3\nx\nc4\nc5\nc6\n' > top      # first line of the file is gone
printf 'c1\nc2\nc3\nx\nc4\nc5\n' > end      # last line of the file is gone
for k in top end; do
  cp $k f; timeout 5 "$P" -f -F2 f p.diff </dev/null > out 2>&1; rc=$?
  if [ $rc -ne 0 ] || ! grep -q '^y$' f; then echo "VIOLATION ($k): rc=$rc"; cat out; bad=1; fi
  rm -f f f.orig f.rej
done
cd /; rm -rf "$D"; exit $bad
