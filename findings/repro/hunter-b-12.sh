#!/bin/sh
# C15 (and C04 "2 only for real trouble"): git section creating a symbolic link whose path is already taken
# (the same dangling link from an earlier application, or an empty file): --dry-run says all is well, exit 0;
# the real run dies with exit 2 "Can't create symbolic link m : File exists".
SB=${1:-/tmp/head_wt/_b/app/sb_patch}
D=$(mktemp -d /tmp/hunt_b/f12.XXXXXX) && cd "$D" || exit 2
cat > p.diff <<'P'
diff --git a/lnk b/lnk
new file mode 120000
--- /dev/null
+++ b/lnk
@@ -0,0 +1 @@
+m
\ No newline at end of file
P
v=0
for kind in link empty; do
  rm -f lnk; if [ $kind = link ]; then ln -s m lnk; else : > lnk; fi
  timeout 5 "$SB" -p1 --dry-run -i p.diff </dev/null > dry.txt 2>&1; drc=$?
  timeout 5 "$SB" -p1 -i p.diff </dev/null > real.txt 2>&1; rrc=$?
  echo "[$kind] dry rc=$drc: $(cat dry.txt)"; echo "[$kind] real rc=$rrc: $(cat real.txt)"
  [ $drc -eq $rrc ] || { echo "VIOLATED [$kind]: dry-run exit $drc, real exit $rrc"; v=1; }
done
cd /; rm -rf "$D"; exit $v
