#!/bin/sh
# C11 (stdin == -i): the patch file named with -i is opened read-write ("r+"), so an unprivileged user cannot apply a
# patch file he can read but not write (mode 444, or owned by someone else), while the same bytes on stdin work.
# Needs root to drop privileges with setpriv.
P=${1:-/tmp/head_wt/_b/app/sb_patch}
D=$(mktemp -d /tmp/hunt_c/f15.XXXXXX) || exit 2; cd "$D" || exit 2
command -v setpriv >/dev/null || { echo "setpriv missing, cannot run"; exit 0; }
cp "$P" ./patch_bin; chmod 755 ./patch_bin . ; chmod 755 /tmp/hunt_c
mkdir a b; chmod 777 a b
for k in a b; do printf "one\ntwo\n" > $k/f; chmod 666 $k/f; chown 65534:65534 $k/f; done
printf -- '--- f\n+++ f\n@@ -1,2 +1,2 @@\n one\n-two\n+TWO\n' > p.diff; chmod 444 p.diff
(cd a; TMPDIR=/tmp setpriv --reuid=65534 --regid=65534 --clear-groups timeout 5 ../patch_bin < ../p.diff > ../out_stdin 2>&1; echo $? > ../rc_stdin)
(cd b; TMPDIR=/tmp setpriv --reuid=65534 --regid=65534 --clear-groups timeout 5 ../patch_bin -i ../p.diff </dev/null > ../out_i 2>&1; echo $? > ../rc_i)
if [ "$(cat rc_stdin)" = "$(cat rc_i)" ] && cmp -s a/f b/f; then cd /; rm -rf "$D"; exit 0; fi
echo "VIOLATION: stdin: rc=$(cat rc_stdin)"; cat out_stdin; cat a/f; echo "-- -i: rc=$(cat rc_i)"; cat out_i; cat b/f
cd /; rm -rf "$D"; exit 1
