#!/bin/sh
# C01 (git diff producer, strip level 0): "git diff --no-prefix" output applied with -p0.  Sections that carry no ---/+++
# lines (mode change only, pure rename, empty-file creation/deletion) cannot be applied: the "diff --git x x" line is only
# split at " b/", and "rename from/to" names are reduced to their basename and prefixed with a/ b/.
P=${1:-/tmp/head_wt/_b/app/sb_patch}
D=$(mktemp -d /tmp/hunt_c/f13.XXXXXX) || exit 2; cd "$D" || exit 2
bad=0
mkdir repo; cd repo; git init -q .; git config user.email x@y; git config user.name x
mkdir d; printf 'one\ntwo\nthree\nfour\nfive\n' > d/keep; printf 'x\n' > m; git add -A; git commit -q -m a
git mv d/keep d/moved; chmod 755 m; git add -A
git diff --cached --no-prefix -M HEAD > ../p.diff; cd ..
cat p.diff
mkdir w; mkdir w/d; printf 'one\ntwo\nthree\nfour\nfive\n' > w/d/keep; printf 'x\n' > w/m; chmod 644 w/m
(cd w; timeout 5 "$P" -p0 -i ../p.diff </dev/null); rc=$?
if [ $rc -ne 0 ] || [ ! -f w/d/moved ] || [ -e w/d/keep ] || [ "$(stat -c %a w/m)" != 755 ]; then
  echo "VIOLATION: rc=$rc; expected d/keep renamed to d/moved and m with mode 755:"; find w -type f | xargs ls -l; bad=1
fi
cd /; rm -rf "$D"; exit $bad
