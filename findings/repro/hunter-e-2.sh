#!/bin/sh
# C15 + C04 (incomplete fix 47ed5ad "a parent directory which can not be removed is no reason to give up"):
# after a file is removed, rmdir of its now-empty directory failing with EACCES/EPERM (the directory above
# is not writable, or sticky and someone else's) is still fatal: exit 2, the remaining sections are neither
# applied nor rejected, while --dry-run on the same state promises exit 0.
SB=${1:-/tmp/head_wt/_b/app/sb_patch}
D=$(mktemp -d /tmp/hunt_e/f2.XXXXXX); chmod 777 "$D"; cd "$D" || exit 2
RUN="timeout 5"; [ "$(id -u)" = 0 ] && RUN="timeout 5 setpriv --reuid=65534 --regid=65534 --clear-groups"
mkdir -p top/d; printf 'hello\n' > top/d/f; printf 'one\ntwo\nthree\n' > g
cat > P <<'EOP'
--- top/d/f
+++ /dev/null
@@ -1 +0,0 @@
-hello
--- g
+++ g
@@ -1,3 +1,3 @@
 one
-two
+TWO
 three
EOP
[ "$(id -u)" = 0 ] && chown -R 65534:65534 .
chmod 777 top/d; chmod 555 top
$RUN "$SB" -p0 --dry-run -i P </dev/null >/dev/null 2>&1; dry=$?
$RUN "$SB" -p0 -i P </dev/null; rc=$?
chmod 755 top
echo "dry-run rc=$dry real rc=$rc; g: $(tr '\n' ' ' < g)"
bad=0
[ "$dry" = "$rc" ] || { echo "VIOLATION: --dry-run predicted $dry, real run exited $rc"; bad=1; }
grep -q TWO g || { echo "VIOLATION: the section for g was dropped (not applied, no g.rej) because an empty directory could not be removed"; bad=1; }
cd /; rm -rf "$D"
exit $bad
