#!/bin/sh
# Finding 4 (C03, nearest place): the whole rest of the file is searched forwards before the first line backwards is looked at.
# The text of the hunk sits one line above its stated place (one line was removed further up) and once more 22 lines below:
# the hunk is applied to the far copy (offset 22) instead of the near one (offset -1). GNU patch: "succeeded at 6 (offset -1 lines)".
BIN=${1:-/tmp/head_wt/_b/app/sb_patch}
D=$(mktemp -d /tmp/hunt_f/f4.XXXXXX) || exit 2
trap 'rm -rf "$D"' EXIT
{ for i in 1 2 3 4 5; do echo x$i; done; printf 'a\nb\nc\n'; for i in $(seq 1 20); do echo y$i; done; printf 'a\nb\nc\nz\n'; } > "$D/T"
printf -- '--- T\n+++ T\n@@ -7,3 +7,3 @@\n a\n-b\n+B\n c\n' > "$D/p.diff"
chown -R 65534:65534 "$D"; chmod 777 "$D"
cd "$D" || exit 2
timeout 5 setpriv --reuid=65534 --regid=65534 --clear-groups "$BIN" -f -i p.diff T </dev/null 2>&1
N=$(grep -n '^B$' T | cut -d: -f1)
echo "changed line is line $N of the output (stated: 8, nearest copy: 7, far copy: 30)"
if [ "$N" = 7 ]; then echo OK; exit 0; fi
echo "VIOLATION: not applied at the nearest matching place"; exit 1
