#!/bin/sh
# C12 (and silent loss of a hunk): when the first line of the first hunk of a unified diff is the
# removal of a line starting with "-- " (SQL/Lua/Haskell comment, mail signature), the hunk line
# "--- text" is taken for a FILE HEADER: it overwrites the old-file name with "text" and the first
# hunk is no longer recognised.  With a second hunk present the patch is then "applied" from that
# second hunk on, exit status 0: (a) the first hunk is silently dropped, (b) the old name given by
# the real header (which exists) is no longer a candidate, so the NEW name's file gets patched.
# exit 0 = property holds, 1 = violated.   usage: finding_6.sh /path/to/sb_patch
P=${1:-/tmp/head_wt/_b/app/sb_patch}
W=$(mktemp -d /tmp/hunt_a/f6.XXXXXX) || exit 2
cd "$W" || exit 2
{ echo '-- version 1'; seq 2 20 | sed 's/^/line/'; } > schema.sql.orig
sed -e '1s/.*/-- version 2/' -e 's/^line15$/LINE15/' schema.sql.orig > schema.sql.new
cp schema.sql.orig schema.sql            # both names of the header exist, with the same content
diff -u schema.sql.orig schema.sql.new | sed -e 's/^+++ schema.sql.new/+++ schema.sql/' > p.diff
sed -n '1,6p' p.diff
cp schema.sql.orig keep.orig; cp schema.sql keep.new
timeout 5 "$P" -p0 -i p.diff </dev/null; e=$?
echo "exit $e"
rc=0
# expected: old name schema.sql.orig exists -> it is the one patched, and it becomes schema.sql.new
if cmp -s schema.sql.orig keep.orig && ! cmp -s schema.sql keep.new; then
    echo "VIOLATION: header names schema.sql.orig (exists, listed first) but schema.sql was patched"; rc=1
fi
if [ $e -eq 0 ] && ! cmp -s schema.sql.orig schema.sql.new && ! cmp -s schema.sql schema.sql.new; then
    echo "VIOLATION: exit 0 but hunk #1 (line 1) was silently not applied:"; head -1 schema.sql.orig schema.sql; rc=1
fi
cd /; rm -rf "$W"
exit $rc
