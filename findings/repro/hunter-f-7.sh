#!/bin/sh
# Finding 7 (C03, neighbour of known item 1 at the other end of the file): an insertion without context whose place (stated line
# plus the offset of the hunks before) lies behind the last line is rejected instead of going to the end of the file.
# Base a,b,c -> A,b,c,d as a normal diff; the target got a line in front and lost its last line: hunk 1 is found one line down,
# hunk 2 ("3a4") is then looked for after line 4 of a file of 3 lines and rejected. Its old side is empty, so it "occurs" and C03
# wants it applied rather than rejected; GNU patch appends it. Same for "@@ -5,0 +6 @@" against a file of 3 lines.
BIN=${1:-/tmp/head_wt/_b/app/sb_patch}
D=$(mktemp -d /tmp/hunt_f/f7.XXXXXX) || exit 2
trap 'rm -rf "$D"' EXIT
printf '1c1\n< a\n---\n> A\n3a4\n> d\n' > "$D/p.diff"
printf 'x1\na\nb\n' > "$D/T"
chown -R 65534:65534 "$D"; chmod 777 "$D"
cd "$D" || exit 2
timeout 5 setpriv --reuid=65534 --regid=65534 --clear-groups "$BIN" -f -i p.diff T </dev/null 2>&1; RC=$?
echo "rc=$RC"; tr '\n' ' ' < T; echo
if [ "$RC" = 0 ] && [ "$(cat T)" = "$(printf 'x1\nA\nb\nd\n')" ]; then echo OK; exit 0; fi
echo "VIOLATION: insertion without context rejected (GNU patch gives x1 A b d)"; exit 1
