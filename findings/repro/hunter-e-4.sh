#!/bin/sh
# C17 + C15 (not a regression; same code as touched by 586d7d3): "read-only" is decided from
# (mode & 0222) == 0. A file the user owns with no owner write bit but a group/other one (0464, 0446, 0466)
# is read-only for the user, yet is not made writable: the run dies with "Permission denied", exit 2,
# where a 0444 file is patched and restored; --dry-run says 0; --read-only=fail does not refuse it either.
SB=${1:-/tmp/head_wt/_b/app/sb_patch}
[ "$(id -u)" = 0 ] || { echo "needs root only to drop to uid 65534; running as current user"; }
D=$(mktemp -d /tmp/hunt_e/f4.XXXXXX); chmod 777 "$D"; cd "$D" || exit 2
RUN="timeout 5"; [ "$(id -u)" = 0 ] && RUN="timeout 5 setpriv --reuid=65534 --regid=65534 --clear-groups"
printf 'one\ntwo\nthree\n' > f
cat > P <<'EOP'
--- f
+++ f
@@ -1,3 +1,3 @@
 one
-two
+TWO
 three
EOP
[ "$(id -u)" = 0 ] && chown 65534:65534 f
chmod 464 f
$RUN "$SB" --dry-run -i P </dev/null >/dev/null 2>&1; dry=$?
$RUN "$SB" -i P </dev/null; rc=$?
echo "dry-run rc=$dry real rc=$rc mode=$(stat -c %a f) content: $(tr '\n' ' ' < f)"
bad=0
[ "$dry" = "$rc" ] || { echo "VIOLATION (C15): dry-run $dry vs real $rc"; bad=1; }
{ [ "$rc" = 0 ] && grep -q TWO f && [ "$(stat -c %a f)" = 464 ]; } || { echo "VIOLATION (C17): a file read-only for its owner (0464) was not patched"; bad=1; }
cd /; rm -rf "$D"
exit $bad
