#!/bin/sh
# C17/C01: "new file mode 160000" (a git submodule entry) is taken for a symbolic link (mode test is
# (mode & 0120000) == 0120000): a dangling link named after the submodule pointing to "Subproject commit ..." is made.
BIN="${1:?usage: $0 /path/to/sb_patch}"
D=/tmp/hunt_g/f6.$$
rm -rf "$D"; mkdir -p "$D"; cd "$D" || exit 2
cat > p.diff <<'EOP'
diff --git a/sub b/sub
new file mode 160000
index 0000000..1de5659
--- /dev/null
+++ b/sub
@@ -0,0 +1 @@
+Subproject commit 1de5659a1d6ae4a4bb8b5d64e5e7d5b0e6c5d2aa
EOP
chown -R 65534:65534 "$D"; chmod 777 "$D"
timeout 5 setpriv --reuid=65534 --regid=65534 --clear-groups "$BIN" -p1 -i p.diff </dev/null; echo "exit status $?"
ls -l; bad=0
if [ -L sub ]; then echo "VIOLATION: sub is a symbolic link to '$(readlink sub)'"; bad=1; fi
cd /; rm -rf "$D"
exit $bad
