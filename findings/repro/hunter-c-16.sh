#!/bin/sh
# C17/C01 (exit status): patching a file the user may write but does not own (e.g. group- or world-writable, owned by
# someone else) ends with exit 2 "Unable to change permissions ... Operation not permitted" after the file has been
# written, because the old mode is re-applied with chmod even though it never changed; later sections are not processed.
# Needs root to drop privileges with setpriv.
P=${1:-/tmp/head_wt/_b/app/sb_patch}
D=$(mktemp -d /tmp/hunt_c/f16.XXXXXX) || exit 2; cd "$D" || exit 2
command -v setpriv >/dev/null || { echo "setpriv missing, cannot run"; exit 0; }
cp "$P" ./patch_bin; chmod 755 ./patch_bin .; chmod 755 /tmp/hunt_c
mkdir a; chmod 777 a; printf 'one\ntwo\n' > a/f; printf 'one\ntwo\n' > a/g; chmod 666 a/f a/g     # owned by root, writable by all
printf -- '--- f\n+++ f\n@@ -1,2 +1,2 @@\n one\n-two\n+TWO\n--- g\n+++ g\n@@ -1,2 +1,2 @@\n one\n-two\n+TWO\n' > p.diff
(cd a; TMPDIR=/tmp setpriv --reuid=65534 --regid=65534 --clear-groups timeout 5 ../patch_bin < ../p.diff > ../out 2>&1; echo $? > ../rc)
if [ "$(cat rc)" = 0 ] && grep -q TWO a/f && grep -q TWO a/g; then cd /; rm -rf "$D"; exit 0; fi
echo "VIOLATION: rc=$(cat rc)"; cat out; echo "f:"; cat a/f; echo "g:"; cat a/g
cd /; rm -rf "$D"; exit 1
