#!/bin/sh
# C12: a git patch without ---/+++ lines (mode change only) for a file whose name contains " b/"
# (a directory "x b" holding "y": git prints `diff --git a/x b/y b/x b/y`, unquoted) is cut at the
# FIRST " b/": the name becomes "a/x", so with -p1 patch looks for "x" instead of "x b/y".
# The chmod is lost, or lands on an unrelated file "x" when that exists.
# exit 0 = property holds, 1 = violated.   usage: finding_5.sh /path/to/sb_patch
P=${1:-/tmp/head_wt/_b/app/sb_patch}
W=$(mktemp -d /tmp/hunt_a/f5.XXXXXX) || exit 2
cd "$W" || exit 2
# this is byte for byte what `git diff` prints after `chmod +x "x b/y"`
printf 'diff --git a/x b/y b/x b/y\nold mode 100644\nnew mode 100755\n' > mode.diff
rc=0
mkdir -p 't1/x b'; printf 'hello\n' > 't1/x b/y'; chmod 644 't1/x b/y'
( cd t1 && timeout 5 "$P" -p1 -i ../mode.diff </dev/null >../out1.txt 2>&1 ); e1=$?
echo "case 1: exit $e1"; sed -n '1,2p' out1.txt; ls -l 't1/x b/y'
[ -x 't1/x b/y' ] || { echo "VIOLATION: 'x b/y' was not the file operated on"; rc=1; }
mkdir -p 't2/x b'; printf 'hello\n' > 't2/x b/y'; chmod 644 't2/x b/y'; mkdir t2/z; printf 'other\n' > t2/x; chmod 644 t2/x
( cd t2 && timeout 5 "$P" -p1 -i ../mode.diff </dev/null >../out2.txt 2>&1 ); e2=$?
echo "case 2: exit $e2"; cat out2.txt; ls -l t2/x 't2/x b/y'
[ -x t2/x ] && { echo "VIOLATION: the unrelated file 'x' was made executable"; rc=1; }
cd /; rm -rf "$W"
exit $rc
