#!/bin/sh
# C04: with -f or -t ("do not prompt") a section whose target can not be found still asks "File to patch:"
# on /dev/tty; without a tty that is a fatal exit 2 and the later sections are never applied
# (expected: "Skipping patch", exit 1, g patched).
SB=${1:-/tmp/head_wt/_b/app/sb_patch}
D=$(mktemp -d /tmp/hunt_b/f6.XXXXXX) && cd "$D" || exit 2
printf 'a\n' > g
cat > p.diff <<'P'
--- missing
+++ missing
@@ -1 +1 @@
-a
+b
--- g
+++ g
@@ -1 +1 @@
-a
+b
P
v=0
for opt in -f -t; do
  printf 'a\n' > g
  setsid timeout 5 "$SB" -p0 $opt -i p.diff </dev/null > out.txt 2>&1; rc=$?
  cat out.txt; echo "rc=$rc"
  if [ $rc -ne 1 ] || [ "$(cat g)" != b ]; then echo "VIOLATED with $opt: rc=$rc (want 1), g=$(cat g) (want b)"; v=1; fi
done
cd /; rm -rf "$D"; exit $v
