#!/bin/sh
# C07: signed integer overflow.  A normal-diff command "NdM,0" (new range end before its start) is accepted and gives the
# hunk a line count of about -2^61; the running old-to-new offset is the sum of these and overflows int64 after 5 hunks.
# Visible without a sanitizer as absurd, sign-flipping line numbers in --verbose output.
P=${1:-/tmp/head_wt/_b/app/sb_patch}
D=$(mktemp -d /tmp/hunt_c/f7.XXXXXX) || exit 2; cd "$D" || exit 2
printf 'a\nb\nc\nd\ne\nf\ng\n' > f
M=2305843009213693951
for i in 1:a 2:b 3:c 4:d 5:e 6:f; do printf '%sd%s,0\n< %s\n' "${i%%:*}" $M "${i##*:}"; done > p.diff
timeout 5 "$P" --verbose -f -i p.diff f </dev/null > out 2>&1; rc=$?
cat out
# -9223372036854775803 - 2305843009213693952 does not fit: the printed value wraps around to a positive number
if grep -q 'Hunk #5 succeeded at -9223372036854775803' out && grep -Eq 'Hunk #6 succeeded at [0-9]{15,}' out; then
  echo "VIOLATION: int64 overflow of the line offset (rc=$rc)"; cd /; rm -rf "$D"; exit 1
fi
cd /; rm -rf "$D"; exit 0
