#!/bin/sh
# C01 (and C02 last sentence): with default options CRLF line endings are rewritten to LF, also on lines outside every hunk.
P=${1:-/tmp/head_wt/_b/app/sb_patch}
D=$(mktemp -d /tmp/hunt_c/f2.XXXXXX) || exit 2; cd "$D" || exit 2
printf 'a\r\nb\r\nc\r\nd\r\ne\r\nf\r\ng\r\nh\r\ni\r\n' > A
printf 'a\r\nB\r\nc\r\nd\r\ne\r\nf\r\ng\r\nh\r\ni\r\n' > B
diff -u A B > p.diff      # one hunk covering lines 1-5; lines 6-9 are outside it
cp A f; timeout 5 "$P" f p.diff </dev/null; rc=$?
if cmp -s f B && [ $rc -eq 0 ]; then cd /; rm -rf "$D"; exit 0; fi
echo "VIOLATION: rc=$rc; expected CRLF file B, got:"; od -c f | head -5
cd /; rm -rf "$D"; exit 1
