#!/bin/sh
# C04 / C16 (side effect of fix ce609ef): the reject file named with -r is "whatever we were told to write to" just like
# the -o file, but a symbolic link given there is removed and replaced by a regular file: rejects never reach the file the
# link points to, and the link (a bystander set up by the user) is destroyed. With "-r /dev/stderr" (a link on Linux) the
# unprivileged run ends with "Unable to remove symbolic link /dev/stderr: Permission denied", exit 2; as root it would
# remove the device link.
BIN="${1:?usage: $0 /path/to/sb_patch}"
D=/tmp/hunt_g/f8.$$
rm -rf "$D"; mkdir -p "$D/logs"; cd "$D" || exit 2
printf 'one\ntwo\nthree\n' > f
: > logs/rejects.log; ln -s logs/rejects.log rej
printf -- '--- a/f\n+++ b/f\n@@ -1,3 +1,3 @@\n uno\n-dos\n+2\n tres\n' > p.diff
chown -R -h 65534:65534 "$D"; chmod 777 "$D"
timeout 5 setpriv --reuid=65534 --regid=65534 --clear-groups "$BIN" -f -p1 -r rej -i p.diff </dev/null; echo "exit status $?"
ls -l . logs
bad=0
if [ ! -L rej ]; then echo "VIOLATION: the link rej given with -r was replaced by a regular file"; bad=1; fi
if [ ! -s logs/rejects.log ]; then echo "note: the file the -r link points to did not get the rejects (GNU patch 2.7.6 does not write them there either, but it keeps the link and fails)"; fi
cd /; rm -rf "$D"
exit $bad
