#!/bin/sh
# C13: a hunk whose lines end in CRLF is written to the reject file with bare LF line ends, so the
# change read back from the reject is not the change that failed: the original patch applies to the
# pristine CRLF file, the saved reject of the very same hunk does not.
# exit 0 = property holds, 1 = violated.   usage: finding_2.sh /path/to/sb_patch
P=${1:-/tmp/head_wt/_b/app/sb_patch}
W=$(mktemp -d /tmp/hunt_a/f2.XXXXXX) || exit 2
cd "$W" || exit 2
printf 'a\r\nb\r\nc\r\n' > old
printf 'a\r\nB\r\nc\r\n' > new
diff -u old new > p.diff                      # every line of the hunk ends in CRLF
# 1. the hunk as given applies to a pristine copy
cp old g1
timeout 5 "$P" -f --newline-output=preserve g1 p.diff </dev/null >/dev/null 2>&1; r1=$?
cmp -s g1 new; c1=$?
# 2. make it fail, collect the reject
printf 'a\r\nX\r\nc\r\n' > f
timeout 5 "$P" -f --newline-output=preserve f p.diff </dev/null >/dev/null 2>&1
echo "--- hunk in p.diff:"; sed -n '3,$p' p.diff | od -c | sed -n '1,6p'
echo "--- hunk in f.rej:";  sed -n '3,$p' f.rej  | od -c | sed -n '1,6p'
# 3. the reject of that same hunk on the same pristine copy
cp old g2
timeout 5 "$P" -f --newline-output=preserve g2 f.rej </dev/null >out2.txt 2>&1; r2=$?
cmp -s g2 new; c2=$?
echo "original patch on pristine file: exit $r1, result matches new: $c1 (0 = yes)"
echo "its reject     on pristine file: exit $r2, result matches new: $c2 (0 = yes)"; cat out2.txt
rc=0
if [ $r1 -eq 0 ] && [ $c1 -eq 0 ] && { [ $r2 -ne 0 ] || [ $c2 -ne 0 ]; }; then
    echo "VIOLATION: writing the hunk to the reject and reading it back changed the change it denotes"; rc=1
fi
cd /; rm -rf "$W"
exit $rc
