namespace Proto

def isWs (c : UInt8) : Bool := c == 32 || c == 9

def dropWs (l : List UInt8) : List UInt8 := l.dropWhile isWs

theorem dropWs_length_le (l : List UInt8) : (dropWs l).length ≤ l.length := by
  unfold dropWs
  induction l with
  | nil => simp
  | cons a l ih =>
    simp only [List.dropWhile]
    split
    · simp only [List.length_cons]; omega
    · simp

/-- model of `matches_ignoring_whitespace` (src/locator.cpp:11-61) -/
def miw : List UInt8 → List UInt8 → Bool
  | as, [] =>
    match as with
    | [] => true
    | a :: as' => if isWs a then (dropWs as').isEmpty else false
  | as, b :: bs =>
    if isWs b then
      match as with
      | [] => (dropWs bs).isEmpty
      | a :: as' =>
        if !isWs a then false
        else if (dropWs as').isEmpty then (dropWs bs).isEmpty
        else if (dropWs bs).isEmpty then false
        else miw (dropWs as') (dropWs bs)
    else
      match as with
      | [] => false
      | a :: as' => if a != b then false else miw as' bs
termination_by _ bs => bs.length
decreasing_by
  all_goals simp_wf
  · have := dropWs_length_le bs; omega

/-- spec: collapse blank runs, drop trailing blanks -/
def norm : List UInt8 → List UInt8
  | [] => []
  | c :: cs =>
    if isWs c then
      (if (dropWs cs).isEmpty then [] else 32 :: norm (dropWs cs))
    else c :: norm cs
termination_by l => l.length
decreasing_by
  all_goals simp_wf
  · have := dropWs_length_le cs; omega

#eval miw "a  b ".toUTF8.toList "a\tb".toUTF8.toList
#eval miw " a".toUTF8.toList "a".toUTF8.toList

end Proto
