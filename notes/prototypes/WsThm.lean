import Proto.Ws
namespace Proto

theorem norm_nil : norm [] = [] := by simp [norm]

theorem norm_cons_ws {c : UInt8} {cs} (h : isWs c = true) :
    norm (c :: cs) = if (dropWs cs).isEmpty then [] else 32 :: norm (dropWs cs) := by
  rw [norm]; simp [h]

theorem norm_cons_nws {c : UInt8} {cs} (h : isWs c = false) :
    norm (c :: cs) = c :: norm cs := by
  rw [norm]; simp [h]

theorem nws_ne_32 {c : UInt8} (h : isWs c = false) : c ≠ 32 := by
  intro e; subst e; simp [isWs] at h

/-- norm of a list whose dropWs is nonempty and which starts with non-ws is nonempty -/
theorem norm_ne_nil_of_nws {c : UInt8} {cs} (h : isWs c = false) : norm (c :: cs) ≠ [] := by
  rw [norm_cons_nws h]; simp

theorem miw_iff_norm (as bs : List UInt8) : miw as bs = true ↔ norm as = norm bs := by
  fun_induction miw as bs with
  | case1 => simp
  | case2 a as' h =>
    rw [norm_cons_ws h, norm_nil]
    cases hd : dropWs as' with
    | nil => simp
    | cons x xs => simp
  | case3 a as' h =>
    have h' : isWs a = false := by simpa using h
    rw [norm_cons_nws h', norm_nil]; simp
  | case4 b bs hb =>
    rw [norm_cons_ws hb, norm_nil]
    cases hd : dropWs bs with
    | nil => simp
    | cons x xs => simp
  | case5 b bs hb a as' ha =>
    have ha' : isWs a = false := by simpa using ha
    rw [norm_cons_ws hb, norm_cons_nws ha']
    have := nws_ne_32 ha'
    split <;> simp [this]
  | case6 b bs hb a as' ha hda =>
    have ha' : isWs a = true := by simpa using ha
    rw [norm_cons_ws hb, norm_cons_ws ha']
    simp [hda]
  | case7 b bs hb a as' ha hda hdb =>
    have ha' : isWs a = true := by simpa using ha
    rw [norm_cons_ws hb, norm_cons_ws ha']
    simp [hda, hdb]
  | case8 b bs hb a as' ha hda hdb ih =>
    have ha' : isWs a = true := by simpa using ha
    rw [norm_cons_ws hb, norm_cons_ws ha']
    simp [hda, hdb, ih]
  | case9 b bs hb =>
    have hb' : isWs b = false := by simpa using hb
    rw [norm_nil, norm_cons_nws hb']; simp
  | case10 b bs hb a as' hne =>
    have hb' : isWs b = false := by simpa using hb
    rw [norm_cons_nws hb']
    by_cases ha : isWs a = true
    · rw [norm_cons_ws ha]
      have := nws_ne_32 hb'
      split <;> simp [Ne.symm this]
    · have ha' : isWs a = false := by simpa using ha
      rw [norm_cons_nws ha']
      simp at hne
      simp [hne]
  | case11 b bs hb a as' hne ih =>
    have hb' : isWs b = false := by simpa using hb
    simp at hne
    subst hne
    rw [norm_cons_nws hb', norm_cons_nws hb']
    simp [ih]

#print axioms miw_iff_norm
end Proto
