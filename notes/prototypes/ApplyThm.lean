import Proto.Apply
namespace Proto

theorem lineMatches_refl (l : Line) (iw : Bool) : lineMatches l l iw = true := by
  simp [lineMatches]

/-- if the old side of `ls` sits in `file` at `p`, the matcher accepts -/
theorem matchFrom_of_oldSide (file : List Line) (iw : Bool) :
    ∀ (ls : List PatchLine) (p : Nat),
      (file.drop p).take ((ls.filter (·.op ≠ '+')).length) = (ls.filter (·.op ≠ '+')).map (·.line) →
      p + (ls.filter (·.op ≠ '+')).length ≤ file.length →
      matchFrom file iw ls p = true := by
  intro ls
  induction ls with
  | nil => intro p _ _; simp [matchFrom]
  | cons pl rest ih =>
    intro p h hlen
    by_cases hop : pl.op = '+'
    · simp only [matchFrom, hop, ↓reduceIte]
      apply ih p
      · simpa [List.filter, hop] using h
      · simpa [List.filter, hop] using hlen
    · have hf : ((pl :: rest).filter (·.op ≠ '+')) = pl :: rest.filter (·.op ≠ '+') := by
        simp [List.filter, hop]
      rw [hf] at h hlen
      simp only [List.length_cons, List.map_cons] at h hlen
      have hp : p < file.length := by omega
      have hd : file.drop p = file[p] :: file.drop (p+1) := by
        exact List.drop_eq_getElem_cons hp
      rw [hd, List.take_succ_cons] at h
      injection h with h1 h2
      simp only [matchFrom, hop, ↓reduceIte, List.getElem?_eq_getElem hp]
      rw [h1, lineMatches_refl, Bool.true_and]
      apply ih (p+1)
      · simpa using h2
      · omega

theorem find?_candidates_head (g : Int) (size : Nat) (P : Nat → Bool)
    (h0 : 0 ≤ g) (hlt : g.toNat < size) (hP : P g.toNat = true) :
    (candidates g size).find? P = some g.toNat := by
  unfold candidates
  have : ¬ g < 0 := by omega
  simp only [this, ↓reduceIte]
  have : size - g.toNat = (size - g.toNat - 1) + 1 := by omega
  rw [this, List.range'_succ]
  simp [List.find?, hP]

#print axioms matchFrom_of_oldSide
#print axioms find?_candidates_head
end Proto
