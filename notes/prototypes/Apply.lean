import Proto.Core
namespace Proto

/-- write_hunk (applier.cpp:126-145): returns (emitted lines, new cursor) or none when `lines.at` throws -/
def writeHunk (file : List Line) : List PatchLine → Nat → Option (List Line × Nat)
  | [], cur => some ([], cur)
  | pl :: rest, cur =>
    if pl.op = ' ' then
      match file[cur]? with
      | none => none
      | some l => (writeHunk file rest (cur + 1)).map fun (o, c) => (l :: o, c)
    else if pl.op = '+' then
      (writeHunk file rest cur).map fun (o, c) => (pl.line :: o, c)
    else if pl.op = '-' then writeHunk file rest (cur + 1)
    else writeHunk file rest cur

structure AState where
  out : List Line := []
  cursor : Nat := 0          -- line_number
  offErr : Int := 0          -- offset_error
  rejects : List Hunk := []
  perfect : Bool := true

/-- one iteration of the hunk loop, no reversed-patch probing (hunk_num > 0 or -f) -/
def stepHunk (file : List Line) (iw : Bool) (maxFuzz : Int) (s : AState) (h : Hunk) : Option AState :=
  match locateHunk file h iw s.offErr maxFuzz with
  | some loc =>
    let copied := (file.drop s.cursor).take (loc.line.toNat - s.cursor)
    let cur := if s.cursor < loc.line.toNat then loc.line.toNat else s.cursor
    match writeHunk file h.lines loc.line.toNat with
    | none => none
    | some (o, c) =>
      some { s with out := s.out ++ copied ++ o, cursor := c, offErr := s.offErr + loc.offset,
                    perfect := s.perfect && (loc.fuzz == 0 && loc.offset == 0) }
  | none => some { s with rejects := s.rejects ++ [h], perfect := false }

def applyAll (file : List Line) (iw : Bool) (maxFuzz : Int) : AState → List Hunk → Option AState
  | s, [] => some { s with out := s.out ++ file.drop s.cursor }
  | s, h :: hs => (stepHunk file iw maxFuzz s h).bind fun s' => applyAll file iw maxFuzz s' hs

/-! ## specification side -/
def Hunk.oldSide (h : Hunk) : List Line := (h.lines.filter (·.op ≠ '+')).map (·.line)
def Hunk.newSide (h : Hunk) : List Line := (h.lines.filter (·.op ≠ '-')).map (·.line)
def Hunk.pos0 (h : Hunk) : Int := expectedLine h - 1

def Hunk.WF (h : Hunk) : Prop :=
  (∀ pl ∈ h.lines, pl.op = ' ' ∨ pl.op = '+' ∨ pl.op = '-') ∧
  h.old.count = h.oldSide.length ∧ h.new.count = h.newSide.length

/-- `Valid file c hs`: from cursor `c`, every hunk's old side sits exactly at its stated place, in order. -/
inductive Valid (file : List Line) : Nat → List Hunk → Prop
  | nil (c) : c ≤ file.length → Valid file c []
  | cons (c) (h : Hunk) (hs) (p : Nat) :
      h.WF → h.pos0 = p → c ≤ p →
      (file.drop p).take h.oldSide.length = h.oldSide → p + h.oldSide.length ≤ file.length →
      ¬ (h.old.count = 0 ∧ h.old.start = 0 ∧ file ≠ []) →   -- excluded today: finding D2
      Valid file (p + h.oldSide.length) hs → Valid file c (h :: hs)

/-- the intended result -/
def splice (file : List Line) : Nat → List Hunk → List Line
  | c, [] => file.drop c
  | c, h :: hs =>
    let p := h.pos0.toNat
    (file.drop c).take (p - c) ++ h.newSide ++ splice file (p + h.oldSide.length) hs

end Proto
