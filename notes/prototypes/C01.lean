import Proto.ApplyThm
namespace Proto

/-! Under `Valid`, locate returns the stated place with fuzz 0 / offset 0. -/

theorem oldSide_length_pos_of_count (h : Hunk) (hw : h.WF) (hc : h.old.count ≠ 0) :
    0 < h.oldSide.length := by
  have := hw.2.1
  rcases Nat.eq_zero_or_pos h.oldSide.length with h0 | h0
  · rw [h0] at this; simp at this; exact absurd this hc
  · exact h0

theorem lines_length_ge_oldSide (h : Hunk) : h.oldSide.length ≤ h.lines.length := by
  unfold Hunk.oldSide
  simp only [List.length_map]
  exact List.length_filter_le _ _

theorem trimmed_zero (h : Hunk) : trimmed h 0 0 = h.lines := by
  simp [trimmed]

theorem locate_valid (file : List Line) (h : Hunk) (iw : Bool) (maxFuzz : Int) (p : Nat)
    (hw : h.WF) (hp : h.pos0 = p)
    (hold : (file.drop p).take h.oldSide.length = h.oldSide)
    (hfit : p + h.oldSide.length ≤ file.length)
    (hex : ¬ (h.old.count = 0 ∧ h.old.start = 0 ∧ file ≠ []))
    (hmf : 0 ≤ maxFuzz) :
    locateHunk file h iw 0 maxFuzz = some ⟨p, 0, 0⟩ := by
  unfold locateHunk
  have hguess : expectedLine h - 1 + 0 = (p : Int) := by
    unfold Hunk.pos0 at hp; omega
  simp only [hguess]
  by_cases hc : h.old.count = 0
  · simp only [hc, ↓reduceIte]
    have : ¬ (h.old.start = 0 ∧ file ≠ []) := fun hh => hex ⟨hc, hh.1, hh.2⟩
    simp [this]
  · simp only [hc, ↓reduceIte]
    have hpos := oldSide_length_pos_of_count h hw hc
    have hlen := lines_length_ge_oldSide h
    -- one round of the fuzz loop at fuzz 0
    unfold locateLoop
    have h1 : ¬ ((0 : Nat) : Int) > maxFuzz := by omega
    simp only [h1, ↓reduceIte]
    have hsf : 0 + suffixCtx h.lines - max (prefixCtx h.lines) (suffixCtx h.lines) = 0 := by omega
    have hpf : 0 + prefixCtx h.lines - max (prefixCtx h.lines) (suffixCtx h.lines) = 0 := by omega
    simp only [hsf, hpf]
    have h2 : ¬ (0 + 0 ≥ h.lines.length) := by omega
    simp only [h2, ↓reduceIte]
    have hm : matchFrom file iw h.lines p = true := by
      apply matchFrom_of_oldSide
      · simpa [Hunk.oldSide] using hold
      · simpa [Hunk.oldSide] using hfit
    have hf : locateFuzz file h iw (p : Int) 0 0 = some p := by
      unfold locateFuzz
      have := find?_candidates_head (p : Int) file.length
        (fun q => matchFrom file iw (trimmed h 0 0) (q + 0)) (by omega) (by simp; omega)
        (by simp [trimmed_zero, hm])
      simpa using this
    simp [hf]

#print axioms locate_valid
end Proto

namespace Proto

def oldOf (ls : List PatchLine) : List Line := (ls.filter (·.op ≠ '+')).map (·.line)
def newOf (ls : List PatchLine) : List Line := (ls.filter (·.op ≠ '-')).map (·.line)

theorem writeHunk_valid (file : List Line) :
    ∀ (ls : List PatchLine) (p : Nat),
      (∀ pl ∈ ls, pl.op = ' ' ∨ pl.op = '+' ∨ pl.op = '-') →
      (file.drop p).take (oldOf ls).length = oldOf ls →
      p + (oldOf ls).length ≤ file.length →
      writeHunk file ls p = some (newOf ls, p + (oldOf ls).length) := by
  intro ls
  induction ls with
  | nil => intro p _ _ _; simp [writeHunk, oldOf, newOf]
  | cons pl rest ih =>
    intro p hops hold hfit
    have hrest : ∀ q ∈ rest, q.op = ' ' ∨ q.op = '+' ∨ q.op = '-' :=
      fun q hq => hops q (List.mem_cons_of_mem _ hq)
    rcases hops pl (List.mem_cons_self) with hsp | hpl | hmi
    · -- context line
      have e1 : oldOf (pl :: rest) = pl.line :: oldOf rest := by simp [oldOf, List.filter, hsp]
      have e2 : newOf (pl :: rest) = pl.line :: newOf rest := by simp [newOf, List.filter, hsp]
      rw [e1] at hold hfit
      simp only [List.length_cons] at hold hfit
      have hp : p < file.length := by omega
      rw [List.drop_eq_getElem_cons hp, List.take_succ_cons] at hold
      injection hold with h1 h2
      have := ih (p+1) hrest (by simpa using h2) (by omega)
      simp only [writeHunk, hsp, ↓reduceIte, List.getElem?_eq_getElem hp, this, Option.map_some, e1, e2,
        List.length_cons, h1]
      congr 2; omega
    · have e1 : oldOf (pl :: rest) = oldOf rest := by simp [oldOf, List.filter, hpl]
      have e2 : newOf (pl :: rest) = pl.line :: newOf rest := by simp [newOf, List.filter, hpl]
      rw [e1] at hold hfit
      have := ih p hrest hold hfit
      have hne : pl.op ≠ ' ' := by rw [hpl]; decide
      simp [writeHunk, hne, hpl, this, e1, e2]
    · have e1 : oldOf (pl :: rest) = pl.line :: oldOf rest := by simp [oldOf, List.filter, hmi]
      have e2 : newOf (pl :: rest) = newOf rest := by simp [newOf, List.filter, hmi]
      rw [e1] at hold hfit
      simp only [List.length_cons] at hold hfit
      have hp : p < file.length := by omega
      rw [List.drop_eq_getElem_cons hp, List.take_succ_cons] at hold
      injection hold with h1 h2
      have := ih (p+1) hrest (by simpa using h2) (by omega)
      have hne : pl.op ≠ ' ' := by rw [hmi]; decide
      have hne2 : pl.op ≠ '+' := by rw [hmi]; decide
      have harith : p + 1 + (oldOf rest).length = p + ((oldOf rest).length + 1) := by omega
      simp [writeHunk, hmi, this, e1, e2, harith]

#print axioms writeHunk_valid
end Proto

namespace Proto

theorem oldSide_eq (h : Hunk) : h.oldSide = oldOf h.lines := rfl
theorem newSide_eq (h : Hunk) : h.newSide = newOf h.lines := rfl

/-- C01 core (prototype, no reversed-probe branch): a valid script is applied exactly, nothing rejected. -/
theorem applyAll_valid (file : List Line) (iw : Bool) (maxFuzz : Int) (hmf : 0 ≤ maxFuzz) :
    ∀ (c : Nat) (hs : List Hunk), Valid file c hs →
    ∀ (s : AState), s.cursor = c → s.offErr = 0 →
    ∃ s', applyAll file iw maxFuzz s hs = some s' ∧
          s'.out = s.out ++ splice file c hs ∧ s'.rejects = s.rejects ∧ s'.perfect = s.perfect := by
  intro c hs hv
  induction hv with
  | nil c hc =>
    intro s hcur _
    exact ⟨_, rfl, by simp [splice, hcur], rfl, rfl⟩
  | cons c h hs p hw hp hcp hold hfit hex _ ih =>
    intro s hcur hoff
    have hloc := locate_valid file h iw maxFuzz p hw hp hold hfit hex hmf
    have hwr := writeHunk_valid file h.lines p hw.1 (by simpa [oldSide_eq] using hold)
      (by simpa [oldSide_eq] using hfit)
    simp only [applyAll, stepHunk, hoff, hloc, Int.toNat_natCast, hwr, Option.bind_some]
    obtain ⟨s', h1, h2, h3, h4⟩ := ih
      { s with out := s.out ++ (file.drop s.cursor).take (p - s.cursor) ++ newOf h.lines,
               cursor := p + (oldOf h.lines).length, offErr := 0 + (0 : Int),
               perfect := s.perfect && ((0 : Int) == 0 && (0 : Int) == 0) }
      (by simp [oldSide_eq]) (by simp)
    refine ⟨s', h1, ?_, ?_, ?_⟩
    · rw [h2]
      have hp0 : h.pos0.toNat = p := by rw [hp]; simp
      simp [splice, hp0, hcur, newSide_eq, oldSide_eq, List.append_assoc]
    · simpa using h3
    · simpa using h4

#print axioms applyAll_valid
end Proto
