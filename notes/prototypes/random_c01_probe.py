import random,subprocess,os,shutil,sys
BIN=sys.argv[1]; N=int(sys.argv[2]); seed=int(sys.argv[3])
random.seed(seed)
W='/tmp/x/rnd/w'
fails={}
def rfile():
    n=random.choice([0,1,2,3,5,8,12])
    ls=[random.choice(['a','b','c','','x y','  z']) for _ in range(n)]
    s='\n'.join(ls)
    if n and random.random()<0.8: s+='\n'
    return s
def mutate(s):
    ls=s.split('\n') if s else []
    trail = s.endswith('\n')
    if trail: ls=ls[:-1]
    for _ in range(random.choice([1,1,2,3])):
        op=random.choice('idr')
        if op=='i' or not ls: ls.insert(random.randint(0,len(ls)),random.choice(['a','b','N','']))
        elif op=='d': del ls[random.randrange(len(ls))]
        else: ls[random.randrange(len(ls))]=random.choice(['a','R','b'])
    t='\n'.join(ls)
    if ls and random.random()<0.8: t+='\n'
    return t
for i in range(N):
    shutil.rmtree(W,ignore_errors=True); os.makedirs(W)
    A=rfile(); B=mutate(A)
    if A==B: continue
    open(W+'/A','w').write(A); open(W+'/B','w').write(B)
    fmt=random.choice(['-u','-U0','-U1','-c','-C1','-C0','-n_'])
    args=['diff']+([] if fmt=='-n_' else [fmt])+['A','B']
    d=subprocess.run(args,cwd=W,capture_output=True).stdout
    open(W+'/p','wb').write(d)
    shutil.copy(W+'/A',W+'/T')
    r=subprocess.run(['timeout','5',BIN,'T','p'],cwd=W,capture_output=True,stdin=subprocess.DEVNULL)
    T=open(W+'/T').read() if os.path.exists(W+'/T') else None
    ok = (r.returncode==0 and (T==B or (B=='' and T is None)) and not os.path.exists(W+'/T.rej') and not os.path.exists(W+'/T.orig'))
    if not ok:
        key=(fmt,r.returncode, 'same' if T==B else 'diff', A=='' , B=='')
        fails.setdefault(key,[]).append((A,B,d.decode(),r.stdout.decode()[-200:],r.stderr.decode()[-200:]))
print("fail classes:",len(fails))
for k,v in sorted(fails.items(), key=lambda kv:-len(kv[1])):
    print(k,len(v)); A,B,d,o,e=v[0]; print(' A=%r B=%r'%(A,B)); print(' out=%r err=%r'%(o,e))
