import Proto.Ws
namespace Proto

inductive NewLine | lf | crlf | none
  deriving DecidableEq, Repr

structure Line where
  content : List UInt8
  newline : NewLine
  deriving DecidableEq, Repr

structure PatchLine where
  op : Char
  line : Line
  deriving DecidableEq, Repr

structure Range where
  start : Int
  count : Int
  deriving DecidableEq, Repr

structure Hunk where
  old : Range
  new : Range
  lines : List PatchLine
  deriving DecidableEq, Repr

structure Location where
  line : Int
  fuzz : Int
  offset : Int
  deriving DecidableEq, Repr

/-- src/locator.cpp:63-81 -/
def lineMatches (a b : Line) (iw : Bool) : Bool :=
  if a.newline = b.newline ∧ a.content = b.content then true
  else if !iw then false
  else if a.content = b.content then true
  else miw a.content b.content

def expectedLine (h : Hunk) : Int :=
  if h.old.count = 0 then h.old.start + 1 else h.old.start

def prefixCtx (ls : List PatchLine) : Nat := (ls.takeWhile (·.op = ' ')).length
def suffixCtx (ls : List PatchLine) : Nat := prefixCtx ls.reverse

/-- the all_of lambda: does `ls` (already trimmed by fuzz) match `content` from index `pos`? -/
def matchFrom (content : List Line) (iw : Bool) : List PatchLine → Nat → Bool
  | [], _ => true
  | pl :: rest, pos =>
    if pl.op = '+' then matchFrom content iw rest pos
    else match content[pos]? with
      | none => false
      | some l => lineMatches l pl.line iw && matchFrom content iw rest (pos + 1)

def trimmed (h : Hunk) (pf sf : Nat) : List PatchLine :=
  (h.lines.drop pf).take (h.lines.length - pf - sf)

/-- forward `for (line = guess; (size_t)line < size; ++line)` then backward `for (line = guess-1; line >= 0; --line)`;
    a negative guess makes both loops empty (size_t cast) -/
def candidates (guess : Int) (size : Nat) : List Nat :=
  if guess < 0 then [] else
  List.range' guess.toNat (size - guess.toNat) ++ (List.range guess.toNat).reverse

def locateFuzz (content : List Line) (h : Hunk) (iw : Bool) (guess : Int) (pf sf : Nat) : Option Nat :=
  (candidates guess content.length).find? fun p =>
    matchFrom content iw (trimmed h pf sf) (p + pf)

def locateLoop (content : List Line) (h : Hunk) (iw : Bool) (guess : Int) (maxFuzz : Int)
    (pc sc : Nat) : (fuel : Nat) → (fuzz : Nat) → Option Location
  | 0, _ => none
  | fuel+1, fuzz =>
    if (fuzz : Int) > maxFuzz then none else
    let ctx := max pc sc
    let sf := (fuzz + sc) - ctx
    let pf := (fuzz + pc) - ctx
    if sf + pf ≥ h.lines.length then none else
    match locateFuzz content h iw guess pf sf with
    | some p => some ⟨p, fuzz, (p : Int) - guess⟩
    | none => locateLoop content h iw guess maxFuzz pc sc fuel (fuzz + 1)

def locateHunk (content : List Line) (h : Hunk) (iw : Bool) (offset : Int) (maxFuzz : Int) : Option Location :=
  let guess := expectedLine h - 1 + offset
  if h.old.count = 0 then
    if h.old.start = 0 ∧ content ≠ [] then none else some ⟨guess, 0, 0⟩
  else
    locateLoop content h iw guess maxFuzz (prefixCtx h.lines) (suffixCtx h.lines) (h.lines.length + 1) 0

end Proto
