namespace Proto

def isDigit (c : UInt8) : Bool := 48 ≤ c && c ≤ 57

/-- decimal digits of `n`, most significant first, as bytes (what `fprintf("%" PRId64)` prints for n ≥ 0) -/
def natToDigitsAux : Nat → Nat → List UInt8 → List UInt8
  | 0, _, acc => acc
  | fuel+1, n, acc =>
    let d : UInt8 := UInt8.ofNat (48 + n % 10)
    if n < 10 then d :: acc else natToDigitsAux fuel (n / 10) (d :: acc)

def natToDigits (n : Nat) : List UInt8 := natToDigitsAux (n + 1) n []

/-- model of string_to_line_number's accumulation loop without the overflow guards -/
def digitsToNat (ds : List UInt8) : Nat := ds.foldl (fun acc d => acc * 10 + (d.toNat - 48)) 0

theorem digitsToNat_append (a b : List UInt8) :
    digitsToNat (a ++ b) = b.foldl (fun acc d => acc * 10 + (d.toNat - 48)) (digitsToNat a) := by
  simp [digitsToNat, List.foldl_append]

theorem ofNat_digit_toNat (k : Nat) (h : k < 10) : (UInt8.ofNat (48 + k)).toNat - 48 = k := by
  have : (48 + k) % 256 = 48 + k := by omega
  simp [UInt8.toNat_ofNat', this]

theorem aux_spec : ∀ (fuel n : Nat) (acc : List UInt8), n < fuel →
    ∃ ds, natToDigitsAux fuel n acc = ds ++ acc ∧ digitsToNat ds = n ∧ (∀ d ∈ ds, isDigit d = true) ∧ ds ≠ [] := by
  intro fuel
  induction fuel with
  | zero => intro n acc h; omega
  | succ fuel ih =>
    intro n acc h
    simp only [natToDigitsAux]
    have hk : n % 10 < 10 := Nat.mod_lt _ (by omega)
    have hd : isDigit (UInt8.ofNat (48 + n % 10)) = true := by
      have : (48 + n % 10) % 256 = 48 + n % 10 := by omega
      simp [isDigit, UInt8.le_iff_toNat_le, UInt8.toNat_ofNat', this]; omega
    split
    · rename_i hlt
      refine ⟨[UInt8.ofNat (48 + n % 10)], by simp, ?_, ?_, by simp⟩
      · simp [digitsToNat, ofNat_digit_toNat _ hk]; omega
      · intro d hdm; simp at hdm; subst hdm; exact hd
    · rename_i hge
      have hlt : n / 10 < fuel := by omega
      obtain ⟨ds, h1, h2, h3, h4⟩ := ih (n / 10) (UInt8.ofNat (48 + n % 10) :: acc) hlt
      refine ⟨ds ++ [UInt8.ofNat (48 + n % 10)], by simp [h1], ?_, ?_, by simp⟩
      · rw [digitsToNat_append]; simp [h2, ofNat_digit_toNat _ hk]; omega
      · intro d hdm
        simp at hdm
        rcases hdm with hdm | hdm
        · exact h3 d hdm
        · subst hdm; exact hd

theorem digitsToNat_natToDigits (n : Nat) : digitsToNat (natToDigits n) = n := by
  obtain ⟨ds, h1, h2, _, _⟩ := aux_spec (n+1) n [] (by omega)
  simp [natToDigits, h1, h2]

#print axioms digitsToNat_natToDigits
#eval natToDigits 1203
end Proto
