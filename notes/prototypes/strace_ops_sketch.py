import re,sys
fdpath={}
ops=[]
for line in open(sys.argv[1]):
    m=re.match(r'^\d+\s+(\w+)\((.*)\)\s+=\s+(-?\d+|\?)(.*)$',line.rstrip())
    if not m: continue
    name,args,ret,_=m.groups()
    if ret=='?' : continue
    ret=int(ret)
    def unq(s):
        s=s.strip()
        if s.startswith('"'):
            body=s[1:s.rindex('"')]
            return bytes(int(h,16) for h in re.findall(r'\\x([0-9a-f]{2})',body))
        return s
    parts=[a for a in re.split(r',\s*(?=(?:[^"]*"[^"]*")*[^"]*$)',args)]
    if name=='openat' and ret>=0:
        path=unq(parts[1]).decode('latin1'); flags=parts[2]
        fdpath[ret]=path
        if 'O_TRUNC' in flags or 'O_CREAT' in flags:
            ops.append(('creat' if 'O_EXCL' in flags else 'trunc',path,flags))
    elif name=='write' and ret>=0:
        fd=int(parts[0]); data=unq(parts[1])[:ret]
        path=fdpath.get(fd,'fd%d'%fd)
        if ops and ops[-1][0]=='write' and ops[-1][1]==path: ops[-1]=('write',path,ops[-1][2]+data)
        else: ops.append(('write',path,data))
    elif name=='close' and ret==0:
        fdpath.pop(int(parts[0]),None)
    elif name in('rename','unlink','rmdir','mkdir','chmod','symlink') and ret==0:
        ops.append((name,)+tuple(unq(a).decode('latin1') if a.strip().startswith('"') else a.strip() for a in parts))
started=False
for o in ops:
    print(o)
